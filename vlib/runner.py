"""Drives the sub-checks of one property: seeds, shards, shrinking, replay
files, known findings, evidence, exit codes.  See DESIGN.md section 2.2."""
import collections
import glob
import hashlib
import json
import multiprocessing
import os
import sys
import time
import traceback

from . import defaults, env

VERIF = env.VERIF
REPO = env.REPO
# where evidence/ and replays/found/ are written (the mutation tool redirects it)
OUT = os.path.abspath(os.environ.get("VERIF_OUT", VERIF))
MAX_WORKERS = int(os.environ.get("VERIF_WORKERS", "16"))


# --------------------------------------------------------------------------
# what a check module uses
# --------------------------------------------------------------------------
class Violation(AssertionError):
    """The property does not hold for this case."""


class Skip(Exception):
    """The oracle cannot judge this case (ill-posed); counted, never a pass."""

    def __init__(self, reason):
        super().__init__(reason)
        self.reason = reason


class KnownFinding(Exception):
    """The case falls in the narrow class of an open known finding."""

    def __init__(self, fid, detail=""):
        super().__init__(fid)
        self.fid = fid
        self.detail = detail


class StopShrinking(BaseException):
    """Raised from inside the test function to end Hypothesis' shrinking when
    its time budget is used up (BaseException: the engine lets it through)."""


class Ctx:
    """Per-case recorder handed to a sub-check body."""

    def __init__(self):
        self.labels = []
        self.nontrivial = False
        self.notes = {}

    def label(self, *names):
        self.labels.extend(str(n) for n in names)

    def nt(self, flag=True):
        self.nontrivial = bool(flag)

    def skip(self, reason):
        raise Skip(reason)

    def known(self, fid, detail=""):
        raise KnownFinding(fid, detail)

    def check(self, cond, msg, *args):
        if not cond:
            raise Violation(msg % args if args else msg)


class Sub:
    """One sub-check.

    strategy : hypothesis strategy (or callable tier -> strategy) producing a
               JSON-able case, or None for enumerated / machine sub-checks
    body     : body(case, ctx) raising Violation / Skip / KnownFinding
    quick, thorough : generated cases per shard
    enumerate: callable tier -> list of cases (exhaustive lattices)
    machine  : callable (tier, on_case) -> RuleBasedStateMachine subclass
    """

    def __init__(self, name, body, strategy=None, quick=200, thorough=2000, shards_quick=1,
                 shards_thorough=16, enumerate=None, machine=None, steps=(20, 40), doc="", custom=None, heavy=False):
        self.name = name
        # heavy: few, expensive cases (large inputs): one shard in the quick tier, not multiplied, not counted when idle cores are shared out
        self.heavy = heavy
        self.body = body
        self.strategy = strategy
        self.quick = quick
        self.thorough = thorough
        self.shards = {"quick": shards_quick, "thorough": shards_thorough}
        self.enumerate = enumerate
        self.machine = machine
        # custom(tier, seed, shard, nshards, rec) -> failure tuple or None (external engines, e.g. atheris)
        self.custom = custom
        self.steps = {"quick": steps[0], "thorough": steps[1]}
        self.doc = doc

    def n(self, tier):
        return self.quick if tier == "quick" else self.thorough


# --------------------------------------------------------------------------
# evaluation of one case
# --------------------------------------------------------------------------
def case_hash(case):
    return hashlib.sha1(json.dumps(case, sort_keys=True, default=str).encode()).hexdigest()


def _blame(exc):
    """Return 'verde' when the innermost frame that belongs to either the
    repository or the harness is in the repository, else 'harness'."""
    if isinstance(exc, AttributeError):
        # a public method or attribute that a verde object no longer offers (e.g. hidden by scikit-learn's available_if) surfaces in the harness frame that asked for it
        import re

        obj = getattr(exc, "obj", None)
        m = re.match(r"This '(\w+)' has no attribute '(\w+)'", str(exc))
        if (obj is not None and type(obj).__module__.split(".")[0] == "verde") or (m and m.group(1) in ("Chain", "Vector", "Spline", "SplineCV", "VectorSpline2D", "Trend", "KNeighbors",
                                                                                                         "Linear", "Cubic", "BlockReduce", "BlockMean", "BlockKFold", "BlockShuffleSplit", "CheckerBoard")):
            return "verde", "attribute lookup on a verde object"
    frames = traceback.extract_tb(exc.__traceback__)
    for fr in reversed(frames):
        if not os.path.isabs(fr.filename):  # e.g. Cython frames ("scipy/spatial/_qhull.pyx")
            continue
        fn = os.path.abspath(fr.filename)
        if fn.startswith(os.path.join(REPO, "verde") + os.sep):
            return "verde", "%s:%d in %s" % (os.path.relpath(fn, REPO), fr.lineno, fr.name)
        if fn.startswith(VERIF + os.sep):
            return "harness", "%s:%d in %s" % (os.path.relpath(fn, VERIF), fr.lineno, fr.name)
    return "harness", "?"


class Rec:
    def __init__(self):
        self.evaluations = 0
        self.hashes = set()
        self.labels = collections.Counter()
        self.skips = collections.Counter()
        self.known = collections.Counter()
        self.samples = []
        self.largest = None
        self.budget_skipped = 0

    def as_dict(self):
        samples = list(self.samples)
        if self.largest is not None and self.largest[1] not in samples:
            samples.append(self.largest[1])
        return dict(evaluations=self.evaluations, hashes=sorted(self.hashes), labels=dict(self.labels),
                    skips=dict(self.skips), known=dict(self.known), samples=samples,
                    budget_skipped=self.budget_skipped)


TRACE = None  # list of {subcheck, case} in evaluation order while a shard is re-run to recover a history-dependent failure


def evaluate(sub, case, rec=None, record=True):
    """Run the body on one case.  Returns None (held / skipped) or a tuple
    (kind, message) with kind in {'violation', 'harness', 'known'}."""
    ctx = Ctx()
    if rec is not None:
        rec.evaluations += 1
    if TRACE is not None:
        TRACE.append(dict(subcheck=sub.name, case=json.loads(json.dumps(case, default=str))))
    # half of the cases (a pure function of the case) leave out every option whose value is the documented default
    defaults.ACTIVE = defaults.flag_for(case)
    defaults.EXPLICIT = defaults.explicit_flag_for(case)
    defaults.NPINT = defaults.npint_flag_for(case)
    defaults.POSITIONAL = defaults.positional_flag_for(case)
    defaults.SEQFORM = defaults.seqform_for(case)
    defaults.STACKED = defaults.stacked_flag_for(case)
    try:
        sub.body(case, ctx)
    except Skip as s:
        if rec is not None:
            rec.skips[s.reason] += 1
        return None
    except KnownFinding as k:
        if rec is not None:
            rec.known[k.fid] += 1
        return ("known", k.fid + (" " + k.detail if k.detail else ""))
    except Violation as v:
        return ("violation", str(v))
    except Exception as e:  # noqa: BLE001 - classified below, never swallowed
        who, where = _blame(e)
        msg = "%s: %s (%s)" % (type(e).__name__, str(e)[:300], where)
        if who == "verde":
            return ("violation", "verde raised on valid input: " + msg)
        return ("harness", msg + "\n" + "".join(traceback.format_exception(type(e), e, e.__traceback__))[-3000:])
    if rec is not None and record:
        for lab in ctx.labels:
            rec.labels[lab] += 1
        if ctx.nontrivial:
            rec.labels["nontrivial"] += 1
            rec.hashes.add(case_hash(case))
            if len(rec.samples) < 3:
                rec.samples.append(case)
            size = len(json.dumps(case, default=str))
            if size < 6000 and (rec.largest is None or size > rec.largest[0]):
                rec.largest = (size, case)
    return None


# --------------------------------------------------------------------------
# one shard of one sub-check (runs in a worker process)
# --------------------------------------------------------------------------
def _load_check(check_id):
    import importlib

    return importlib.import_module("checks." + check_id.lower())


def run_shard(args):
    check_id, sub_name, shard, nshards, tier, seed, budget_s = args
    t0 = time.time()
    if os.environ.get("VERIF_DEBUG_HANG"):
        import faulthandler

        faulthandler.dump_traceback_later(int(os.environ["VERIF_DEBUG_HANG"]), exit=True, file=open("/tmp/verif_hang_%d.txt" % os.getpid(), "w"))
    mod = _load_check(check_id)
    sub = [s for s in mod.SUBCHECKS if s.name == sub_name][0]
    rec = Rec()
    failure = None
    if sub.custom is None and sub.enumerate is None and shard % 2 == 1:
        _prime(mod, sub, tier, seed)
    try:
        if sub.custom is not None:
            failure = sub.custom(tier, seed, shard, nshards, rec)
        elif sub.enumerate is not None:
            failure = _run_enumerated(sub, tier, shard, nshards, rec)
        elif sub.machine is not None:
            failure = _run_machine(sub, tier, seed, rec, budget_s)
        else:
            failure = _run_hypothesis(sub, tier, seed, rec, budget_s)
    except Exception as e:  # noqa: BLE001
        failure = ("harness", None, "runner: %s\n%s" % (e, traceback.format_exc()[-3000:]))
    out = rec.as_dict()
    out.update(sub=sub_name, shard=shard, wall=time.time() - t0, failure=failure, seed=seed)
    return out


def _prime(mod, sub, tier, seed):
    """Odd-numbered shards start with a few cases of the *sibling* sub-checks (made for their side effects only: a sub-check's own
    shards judge them).  A value that verde computes once per process and keeps - a module-level cache keyed too coarsely, a
    constant frozen by the first call - is then set by a different kind of call than the ones this shard judges."""
    import hypothesis
    from hypothesis import given

    for k, other in enumerate(mod.SUBCHECKS):
        if other is sub or other.strategy is None:
            continue
        strat = other.strategy(tier) if callable(other.strategy) else other.strategy

        @hypothesis.seed(seed * 31 + k)
        @_hyp_settings(3, tier)
        @given(strat)
        def prime(case, other=other):
            evaluate(other, case)

        try:
            prime()
        except BaseException as e:  # noqa: BLE001 - primers are not judged here
            if isinstance(e, KeyboardInterrupt):
                raise


def _run_enumerated(sub, tier, shard, nshards, rec):
    for i, case in enumerate(sub.enumerate(tier)):
        if i % nshards != shard:
            continue
        res = evaluate(sub, case, rec)
        if res is not None and res[0] != "known":
            return (res[0], case, res[1])
    return None


def _hyp_settings(n, tier, steps=None):
    from hypothesis import HealthCheck, Phase, Verbosity, settings

    kw = dict(max_examples=n, database=None, deadline=None, derandomize=False, report_multiple_bugs=False,
              suppress_health_check=[HealthCheck.too_slow, HealthCheck.data_too_large, HealthCheck.large_base_example],
              phases=[Phase.generate] if TRACE is not None else [Phase.generate, Phase.shrink], verbosity=Verbosity.quiet)
    if steps is not None:
        kw["stateful_step_count"] = steps
    return settings(**kw)


SHRINK_CAP = {"quick": 45.0, "thorough": 240.0}


def _run_hypothesis(sub, tier, seed, rec, budget_s):
    import hypothesis
    from hypothesis import given

    strat = sub.strategy(tier) if callable(sub.strategy) else sub.strategy
    state = {"fail": None, "t_fail": None, "t0": time.time()}

    @hypothesis.seed(seed)
    @_hyp_settings(sub.n(tier), tier)
    @given(strat)
    def test(case):
        now = time.time()
        if state["fail"] is None and now - state["t0"] > budget_s:
            rec.budget_skipped += 1
            return
        if state["fail"] is not None and (TRACE is not None or now - state["t_fail"] > SHRINK_CAP[tier]):
            # shrinking budget used up (or a trace run, which stops at the first failure): keep the best failure found so far
            raise StopShrinking()
        res = evaluate(sub, case, rec, record=state["fail"] is None)
        if res is None or res[0] == "known":
            return
        if state["fail"] is None:
            state["t_fail"] = time.time()
        state["fail"] = (res[0], case, res[1])
        raise AssertionError(res[1])

    try:
        test()
    except BaseException as e:  # noqa: BLE001
        if isinstance(e, KeyboardInterrupt):
            raise
        if state["fail"] is None:
            return ("harness", None, "hypothesis: %s: %s" % (type(e).__name__, str(e)[:2000]))
    return state["fail"]


def _run_machine(sub, tier, seed, rec, budget_s):
    import hypothesis
    from hypothesis.stateful import run_state_machine_as_test

    state = {"fail": None, "t_fail": None, "t0": time.time()}

    def on_history(history_case, final):
        """Called by the machine after every step (final=False) and at
        teardown (final=True) with the JSON history so far."""
        now = time.time()
        if state["fail"] is None and now - state["t0"] > budget_s:
            rec.budget_skipped += 1
            return
        if state["fail"] is not None and (TRACE is not None or now - state["t_fail"] > SHRINK_CAP[tier]):
            raise StopShrinking()
        if final:
            res = evaluate(sub, history_case, rec, record=state["fail"] is None)
        else:
            return
        if res is None or res[0] == "known":
            return
        if state["fail"] is None:
            state["t_fail"] = time.time()
        state["fail"] = (res[0], history_case, res[1])
        raise AssertionError(res[1])

    machine = sub.machine(tier, on_history)
    try:
        run_state_machine_as_test(hypothesis.seed(seed)(machine), settings=_hyp_settings(sub.n(tier), tier, sub.steps[tier]))
    except BaseException as e:  # noqa: BLE001
        if isinstance(e, KeyboardInterrupt):
            raise
        if state["fail"] is None:
            return ("harness", None, "hypothesis(stateful): %s: %s" % (type(e).__name__, str(e)[:2000]))
    return state["fail"]


# --------------------------------------------------------------------------
# the driver
# --------------------------------------------------------------------------
def _write_replay(check_id, sub_name, case, message, seed, kind, history=None):
    d = os.path.join(OUT, "replays", "found")
    os.makedirs(d, exist_ok=True)
    h = case_hash(case)[:8]
    path = os.path.join(d, "%s-%s-%s.json" % (check_id, sub_name, h))
    with open(path, "w") as f:
        doc = dict(property=check_id, subcheck=sub_name, case=case, message=message, seed=seed, kind=kind)
        if history is not None:
            doc["history"] = history
        json.dump(doc, f, indent=1, default=str)
    return os.path.relpath(path, OUT) if OUT == VERIF else path


def load_known():
    path = os.path.join(VERIF, "known_findings.json")
    if not os.path.exists(path):
        return []
    return json.load(open(path))


def replay_file(mod, path):
    data = json.load(open(path))
    sub = [s for s in mod.SUBCHECKS if s.name == data["subcheck"]]
    if not sub:
        return ("harness", "unknown subcheck %s in %s" % (data["subcheck"], path))
    by_name = {s.name: s for s in mod.SUBCHECKS}
    for h in data.get("history", []):
        # earlier calls of a history-dependent failure: made for their side effects on verde's state only
        if h["subcheck"] in by_name:
            evaluate(by_name[h["subcheck"]], h["case"])
    return evaluate(sub[0], data["case"])


def _run_prefix(check_id, sub_names):
    """(forked child) regression replays, then canaries of the open known findings"""
    mod = _load_check(check_id)
    by_name = {s.name: s for s in mod.SUBCHECKS}
    out = dict(lines=[], violations=[], harness_errors=[], known_seen=[], n_regress=0, regress_hashes=[], per_sub={n: [0, []] for n in sub_names})
    for path in sorted(glob.glob(os.path.join(VERIF, "replays", "regress", check_id, "*.json"))):
        data = json.load(open(path))
        if data["subcheck"] not in out["per_sub"]:
            continue
        out["n_regress"] += 1
        rec = Rec()
        res = evaluate(by_name[data["subcheck"]], data["case"], rec)
        out["per_sub"][data["subcheck"]][0] += 1
        out["per_sub"][data["subcheck"]][1].extend(sorted(rec.hashes))
        out["regress_hashes"].extend(sorted(rec.hashes))
        if res is not None and res[0] == "violation":
            rel = os.path.relpath(path, VERIF)
            out["lines"].append("regression replay fails: %s" % res[1][:500])
            out["lines"].append("VIOLATION property=%s replay=%s" % (check_id, rel))
            out["violations"].append(rel)
        elif res is not None and res[0] == "harness":
            out["harness_errors"].append("regress %s: %s" % (path, res[1]))
    for k in load_known():
        if not (k.get("status") == "open" and k.get("property") == check_id):
            continue
        path = os.path.join(VERIF, k["canary"])
        res = replay_file(mod, path)
        if res is not None and res[0] == "known":
            out["lines"].append("KNOWN-FINDING: property=%s %s" % (check_id, k["what"]))
            out["known_seen"].append(k["id"])
        elif res is not None and res[0] == "harness":
            out["harness_errors"].append("canary %s: %s" % (path, res[1]))
        elif res is not None and res[0] == "violation":
            rel = os.path.relpath(path, VERIF)
            out["lines"].append("canary of known finding %s fails outside its listed class: %s" % (k["id"], res[1][:300]))
            out["lines"].append("VIOLATION property=%s replay=%s" % (check_id, rel))
            out["violations"].append(rel)
    return out


def trace_shard(check_id, spec_json, out_path):
    """(fresh process) re-run one shard exactly as the driver's worker did, recording every evaluated case in order and
    stopping at the first failure."""
    global TRACE
    spec = json.loads(spec_json)
    mod = _load_check(check_id)
    TRACE = []
    r = run_shard(tuple(spec["task"]))
    json.dump(dict(history=TRACE, failure=r["failure"]), open(out_path, "w"), default=str)
    return 0


def _recover_history(check_id, task, subs, msg):
    """A failure that does not reproduce from its saved case alone may depend on what verde was asked before (module- or
    class-level state).  Re-run the shard in a fresh process; if the same failure returns, minimise the sequence of earlier
    cases (fresh process per trial) and return (history, case, message); otherwise None (the failure is not reproducible)."""
    import subprocess
    import tempfile

    tmp = tempfile.mkdtemp(prefix="verif_hist_")
    script = os.path.join(VERIF, "run_check.py")
    try:
        out = os.path.join(tmp, "trace.json")
        subprocess.run([sys.executable, script, check_id, "--trace-shard", json.dumps(dict(task=list(task), subs=subs)), "--trace-out", out],
                       stdout=subprocess.DEVNULL, stderr=subprocess.DEVNULL, timeout=1800)
        if not os.path.exists(out):
            return None
        data = json.load(open(out))
        f = data["failure"]
        if f is None or f[0] != "violation" or f[1] is None or not data["history"]:
            return None
        final = data["history"][-1]
        history = data["history"][:-1]

        def fails(hist):
            p = os.path.join(tmp, "trial.json")
            json.dump(dict(property=check_id, subcheck=final["subcheck"], case=final["case"], history=hist), open(p, "w"))
            return subprocess.run([sys.executable, script, check_id, "--replay", p], stdout=subprocess.DEVNULL, stderr=subprocess.DEVNULL, timeout=1800).returncode == 1

        if not fails(history):
            return None
        # ddmin over the earlier cases, bounded
        t_end = time.time() + 240
        n = 2
        while len(history) >= 1 and time.time() < t_end:
            size = max(1, len(history) // n)
            chunks = [history[i:i + size] for i in range(0, len(history), size)]
            reduced = False
            for i, chunk in enumerate(chunks):
                if time.time() > t_end:
                    break
                if len(chunks) > 1 and fails(chunk):
                    history, n, reduced = chunk, 2, True
                    break
                rest = [h for j, c in enumerate(chunks) if j != i for h in c]
                if rest != history and fails(rest):
                    history, n, reduced = rest, max(n - 1, 2), True
                    break
            if not reduced:
                if size == 1:
                    break
                n = min(len(history), n * 2)
        return history, final, f[2]
    finally:
        import shutil

        shutil.rmtree(tmp, ignore_errors=True)


def main(check_id, tier, replay=None, only=None):
    t0 = time.time()
    check_id = check_id.upper()
    seed = int(os.environ.get("VERIF_SEED", "1"))
    mod = _load_check(check_id)
    exit_code = 0
    violations = []
    harness_errors = []

    if replay is not None:
        res = replay_file(mod, replay)
        if res is None:
            print("replay %s: property held" % replay)
            return 0
        if res[0] == "known":
            print("KNOWN-FINDING: property=%s %s" % (check_id, res[1]))
            return 0
        if res[0] == "harness":
            print("HARNESS-ERROR %s" % res[1])
            return 2
        print(res[1])
        print("VIOLATION property=%s replay=%s" % (check_id, replay))
        return 1

    subs = [s for s in mod.SUBCHECKS if only is None or s.name in only]
    by_name = {s.name: s for s in mod.SUBCHECKS}
    per_sub = {s.name: dict(evaluations=0, hashes=set(), labels=collections.Counter(), skips=collections.Counter(),
                            known=collections.Counter(), samples=[], budget_skipped=0, shards=0,
                            exhaustive=s.enumerate is not None, kind=("enumerated" if s.enumerate is not None else
                                                                     "stateful" if s.machine is not None else
                                                                     "fuzzed" if s.custom is not None else "generated"))
               for s in subs}

    # 1. + 2. regression replays and canaries of open known findings: plain calls (no Hypothesis) made in a forked child, so that the
    # driver itself never calls verde and every shard starts from the same pristine process state
    known_open = [k for k in load_known() if k.get("status") == "open" and k.get("property") == check_id]
    known_ids = {k["id"] for k in known_open}
    with multiprocessing.get_context("fork").Pool(1) as pool:
        pre = pool.apply(_run_prefix, (check_id, sorted(per_sub)))
    for line in pre["lines"]:
        print(line)
    n_regress, regress_hashes, known_seen = pre["n_regress"], set(pre["regress_hashes"]), pre["known_seen"]
    violations.extend(pre["violations"])
    harness_errors.extend(pre["harness_errors"])
    for name, (n_ev, hashes) in pre["per_sub"].items():
        per_sub[name]["evaluations"] += n_ev
        per_sub[name]["hashes"] |= set(hashes)

    # 3. generated / enumerated / stateful search
    tasks = []
    default_budget = 150.0 if tier == "quick" else 1500.0
    budget_s = float(os.environ.get("VERIF_BUDGET_S", default_budget))
    # use idle cores: when a property's quick tier has fewer shards than workers, every generated sub-check gets more shards (more cases, same wall time)
    planned = sum(s.shards[tier] for s in mod.SUBCHECKS if s.name in per_sub and not s.heavy)
    boost = max(1, min(4, 16 // max(planned, 1))) if tier == "quick" else 1  # independent of the machine: the cases depend on the seed only
    for k, s in enumerate(mod.SUBCHECKS):
        if s.name not in per_sub:
            continue
        nshards = s.shards[tier]
        if s.enumerate is None and s.custom is None and not s.heavy:
            nshards *= boost
        if s.heavy and tier == "thorough":
            nshards = min(nshards, 8)
        if s.enumerate is not None:
            nshards = MAX_WORKERS if tier == "thorough" else min(MAX_WORKERS, max(1, s.shards[tier]))
        for j in range(nshards):
            tasks.append((check_id, s.name, j, nshards, tier, seed * 100003 + k * 101 + j, budget_s))
    if tasks:
        nproc = min(MAX_WORKERS, len(tasks))
        if nproc > 1:
            ctx = multiprocessing.get_context("fork")
            # one fresh fork of the driver per shard: a shard's process history is the driver's plain replays plus its own cases
            with ctx.Pool(nproc, maxtasksperchild=1) as pool:
                # Shards stop drawing cases when their budget is used up, but a single call into the code under test that does not return (a
                # change that makes verde build an astronomically large array, say) cannot be interrupted from inside.  The driver therefore waits for
                # the shards only so long (well beyond the sum of all budgets), keeps what has been reported by then and says which part is
                # inconclusive: a time limit is never a violation, and never a reason not to finish.
                deadline = time.time() + float(os.environ.get("VERIF_DEADLINE_S", max(600.0, 4.0 * budget_s * max(1.0, len(tasks) / float(nproc)))))
                results = []
                it = pool.imap_unordered(run_shard, tasks, chunksize=1)
                for _ in tasks:
                    try:
                        results.append(it.next(timeout=max(1.0, deadline - time.time())))
                    except multiprocessing.TimeoutError:
                        done = {(r["sub"], r["shard"]) for r in results}
                        late = sorted({t[1] for t in tasks if (t[1], t[2]) not in done})
                        print("INCONCLUSIVE property=%s: %d of %d shards (sub-checks %s) did not finish within the time limit; a call into the code under test did not return" % (
                            check_id, len(tasks) - len(results), len(tasks), ", ".join(late)))
                        pool.terminate()
                        break
        else:
            results = [run_shard(t) for t in tasks]
    else:
        results = []
    results.sort(key=lambda r: (r["sub"], r["shard"]))

    seen_buckets = set()
    for r in results:
        ps = per_sub[r["sub"]]
        ps["evaluations"] += r["evaluations"]
        ps["hashes"] |= set(r["hashes"])
        ps["labels"].update(r["labels"])
        ps["skips"].update(r["skips"])
        ps["known"].update(r["known"])
        ps["budget_skipped"] += r["budget_skipped"]
        ps["shards"] += 1
        for smp in r["samples"]:
            if len(ps["samples"]) < 4 and smp not in ps["samples"]:
                ps["samples"].append(smp)
        f = r["failure"]
        if f is None:
            continue
        kind, case, msg = f
        if kind == "harness" or case is None:
            harness_errors.append("%s[%d]: %s" % (r["sub"], r["shard"], msg))
            continue
        # confirm outside Hypothesis: a failure that does not reproduce from
        # its saved input is a harness problem, not a violation
        again = evaluate(by_name[r["sub"]], case)
        history = None
        if again is None or again[0] != "violation":
            task = [t for t in tasks if t[1] == r["sub"] and t[2] == r["shard"]][0]
            rec_h = None if by_name[r["sub"]].custom is not None else _recover_history(check_id, task, sorted(per_sub), msg)
            if rec_h is None:
                harness_errors.append("%s[%d]: failure did not reproduce from the saved case: %s" % (r["sub"], r["shard"], msg))
                continue
            history, final, msg = rec_h
            case = final["case"]
            msg = "%s  [needs %d earlier call(s) in the same process: the replay file lists them]" % (msg, len(history))
        bucket = (r["sub"], msg.split(":")[0][:24])
        path = _write_replay(check_id, r["sub"], case, msg, r["seed"], kind, history)
        if bucket in seen_buckets:
            continue
        seen_buckets.add(bucket)
        print("[%s/%s] %s" % (check_id, r["sub"], msg[:1500]))
        print("VIOLATION property=%s replay=%s" % (check_id, path))
        violations.append(path)

    for fid in set().union(*[set(ps["known"]) for ps in per_sub.values()]) if per_sub else set():
        if fid not in known_ids:
            harness_errors.append("body reported known finding %s that known_findings.json does not list as open" % fid)

    # 4. evidence
    all_hashes = set()
    for ps in per_sub.values():
        all_hashes |= {(h) for h in ps["hashes"]}
    evaluations = sum(ps["evaluations"] for ps in per_sub.values())
    samples = []
    for name, ps in per_sub.items():
        for smp in ps["samples"][:2]:
            samples.append({"subcheck": name, "case": smp})
    wall = time.time() - t0
    evidence = dict(
        property_id=check_id, tier=tier, seed=seed, level="exploration",
        coverage=dict(
            evaluations=evaluations,
            distinct_nontrivial=len(all_hashes),
            rule=getattr(mod, "RULE", ""),
            samples=samples,
            exhaustive=False,
            per_subcheck={name: dict(kind=ps["kind"], evaluations=ps["evaluations"], distinct_nontrivial=len(ps["hashes"]),
                                     labels=dict(sorted(ps["labels"].items())), oracle_skips=dict(ps["skips"]),
                                     excluded_known=dict(ps["known"]), shards=ps["shards"],
                                     stopped_by_time_budget=ps["budget_skipped"], exhaustive=ps["exhaustive"],
                                     doc=by_name[name].doc)
                          for name, ps in per_sub.items()},
            regression_replays=n_regress,
            known_findings_seen=known_seen,
        ),
        assumptions=list(getattr(mod, "ASSUMPTIONS", [])),
        wall_s=round(wall, 2),
        violations=len(violations),
    )
    if only is None:
        os.makedirs(os.path.join(OUT, "evidence"), exist_ok=True)
        with open(os.path.join(OUT, "evidence", check_id + ".json"), "w") as f:
            json.dump(evidence, f, indent=1, default=str)
            f.write("\n")

    for name, ps in per_sub.items():
        sk = sum(ps["skips"].values())
        print("  %-28s %-10s evals=%-7d nontrivial=%-7d skipped=%-6d known=%-4d%s" % (
            name, ps["kind"], ps["evaluations"], len(ps["hashes"]), sk, sum(ps["known"].values()),
            "  (time budget cut %d)" % ps["budget_skipped"] if ps["budget_skipped"] else ""))
    print("%s tier=%s seed=%d evaluations=%d distinct_nontrivial=%d violations=%d wall=%.1fs" % (
        check_id, tier, seed, evaluations, len(all_hashes), len(violations), wall))
    if violations:
        exit_code = 1
    elif harness_errors:
        exit_code = 2
    for h in harness_errors:
        print("HARNESS-ERROR " + h[:3000])
    if evaluations < 1 or len(all_hashes) < 2:
        print("HARNESS-ERROR vacuous run: evaluations=%d distinct_nontrivial=%d" % (evaluations, len(all_hashes)))
        exit_code = exit_code or 2
    return exit_code
