"""Documented defaults of verde's public API, and a switch that makes the harness rely on them.

The checks pass most options explicitly (that is how they reach every combination), so a change of a *default value* in
verde would go unnoticed.  `install` replaces the public callables in the `verde` namespace that the checks use
(`vd.BlockMean`, `vd.grid_coordinates`, ...) by thin proxies.  While `ACTIVE` is true (the runner decides that per case,
as a pure function of the case), a proxy drops every keyword argument whose value equals the default that verde's API
documentation states, so that verde's own default is what acts.  On a tree whose defaults are the documented ones this
changes nothing; after a change of a default the oracle (which works from the explicit value) disagrees with verde.

The table is written out by hand from the API documentation of the pinned commit - it is deliberately not read from the
signatures at run time.  Only the `verde.*` attributes are replaced: calls that verde makes internally are untouched."""
import hashlib
import json

import numpy as np

ACTIVE = False
NPINT = False  # whole-number keyword arguments (k, n_splits, shape, size, random_state, ...) handed over as numpy integers instead of Python ints
POSITIONAL = False  # keyword arguments handed over by position, in the order of the documented signature (see REQUIRED)
STACKED = False  # coordinate tuples handed over as ONE stacked array of shape (n_coordinates, ...): the form in which longitude_continuity returns coordinates
SEQFORM = None  # "list" / "array": regions, shapes and spacings that the checks write as tuples are handed over as lists / numpy arrays
EXPLICIT = False  # the converse for options with an explicit spelling that must behave like the default on this image (see EQUIVALENT)

# engine="numpy" is documented as the pure-numpy implementation, which "auto" selects when numba is missing (it is, here)
EQUIVALENT = {"Spline": dict(engine="numpy"), "VectorSpline2D": dict(engine="numpy"), "SplineCV": dict(engine="numpy")}

DOCUMENTED = {
    "BlockReduce": dict(spacing=None, region=None, adjust="spacing", center_coordinates=False, shape=None, drop_coords=True),
    "BlockMean": dict(spacing=None, region=None, adjust="spacing", center_coordinates=False, uncertainty=False, shape=None, drop_coords=True),
    "BlockKFold": dict(spacing=None, shape=None, n_splits=5, shuffle=False, random_state=None, balance=True),
    "BlockShuffleSplit": dict(spacing=None, shape=None, n_splits=10, test_size=0.1, train_size=None, random_state=None, balancing=10),
    "Spline": dict(mindist=None, damping=None, force_coords=None, engine="auto"),
    "SplineCV": dict(mindists=None, dampings=(1e-10, 1e-5, 1e-1), force_coords=None, engine="auto", cv=None, client=None, delayed=False, scoring=None),
    "VectorSpline2D": dict(poisson=0.5, mindist=10e3, damping=None, force_coords=None, engine="auto"),
    "KNeighbors": dict(k=1, reduction=np.mean),
    "Linear": dict(rescale=False),
    "Cubic": dict(rescale=False),
    "synthetic.CheckerBoard": dict(amplitude=1000, region=(0, 5000, -5000, 0), w_east=None, w_north=None),
    "block_split": dict(spacing=None, adjust="spacing", region=None, shape=None),
    "grid_coordinates": dict(shape=None, spacing=None, adjust="spacing", pixel_register=False, extra_coords=None, meshgrid=True),
    "rolling_window": dict(spacing=None, shape=None, region=None, adjust="spacing"),
    "median_distance": dict(k_nearest=1, projection=None),
    "maxabs": dict(nan=True),
    "project_grid": dict(method="linear", antialias=True),
    "distance_mask": dict(coordinates=None, grid=None, projection=None),
    "convexhull_mask": dict(coordinates=None, grid=None, projection=None),
    "cross_val_score": dict(weights=None, cv=None, client=None, delayed=False, scoring=None),
    "train_test_split": dict(weights=None, spacing=None, shape=None),
    "scatter_points": dict(random_state=None, extra_coords=None),
    "profile_coordinates": dict(extra_coords=None),
    "load_surfer": dict(dtype="float64"),
    "make_xarray_grid": dict(dims=("northing", "easting"), extra_coords_names=None),
    "variance_to_weights": dict(tol=1e-15, dtype="float64"),
    "line_coordinates": dict(size=None, spacing=None, adjust="spacing", pixel_register=False),
    "expanding_window": dict(),
    "inside": dict(),
    "pad_region": dict(),
    "longitude_continuity": dict(),
    "get_region": dict(),
}

# The documented signatures are REQUIRED[name] followed by the keys of DOCUMENTED[name], in that order (the order in which the
# API reference prints them at the pinned commit; written out by hand like the defaults).  maxabs is missing on purpose: its `nan` is
# keyword-only.  project_grid and train_test_split forward further keyword arguments, which are left as keywords.
REQUIRED = {
    "BlockReduce": ["reduction"], "BlockMean": [], "BlockKFold": [], "BlockShuffleSplit": [], "Spline": [], "SplineCV": [], "VectorSpline2D": [],
    "KNeighbors": [], "Linear": [], "Cubic": [], "synthetic.CheckerBoard": [],
    "block_split": ["coordinates"], "grid_coordinates": ["region"], "rolling_window": ["coordinates", "size"], "median_distance": ["coordinates"],
    "project_grid": ["grid", "projection"], "distance_mask": ["data_coordinates", "maxdist"], "convexhull_mask": ["data_coordinates"],
    "cross_val_score": ["estimator", "coordinates", "data"], "train_test_split": ["coordinates", "data"], "scatter_points": ["region", "size"],
    "profile_coordinates": ["point1", "point2", "size"], "load_surfer": ["fname"], "make_xarray_grid": ["coordinates", "data", "data_names"],
    "variance_to_weights": ["variance"], "line_coordinates": ["start", "stop"], "expanding_window": ["coordinates", "center", "sizes"],
    "inside": ["coordinates", "region"], "get_region": ["coordinates"], "pad_region": ["region", "pad"], "longitude_continuity": ["coordinates", "region"],
}


# methods of the gridders (called on instances, so they cannot be proxied): the checks filter their keyword arguments with method_kwargs
METHODS = {
    "grid": dict(region=None, shape=None, spacing=None, dims=None, data_names=None, projection=None, coordinates=None, adjust="spacing", pixel_register=False, extra_coords=None),
    "scatter": dict(region=None, size=300, random_state=0, dims=None, data_names=None, projection=None, extra_coords=None),
    "profile": dict(dims=None, data_names=None, projection=None, extra_coords=None),
}


def method_kwargs(name, kwargs):
    """kwargs without the entries equal to the documented default of BaseGridder.<name> (only while ACTIVE)"""
    if not ACTIVE:
        return kwargs
    table = METHODS[name]
    return {k: v for k, v in kwargs.items() if not (k in table and _same(v, table[k]))}


def _same(value, default):
    if default is None or value is None:
        return value is default
    if callable(default):
        return value is default
    if isinstance(default, bool) or isinstance(value, bool):
        return isinstance(value, bool) and isinstance(default, bool) and value == default
    if isinstance(default, str) or isinstance(value, str):
        return isinstance(value, str) and isinstance(default, str) and value == default
    if isinstance(default, tuple):
        return isinstance(value, (tuple, list)) and len(value) == len(default) and all(_same(v, d) for v, d in zip(value, default))
    if isinstance(value, (int, float, np.integer, np.floating)) and not isinstance(value, np.ndarray):
        return type(value) in (int, float) and float(value) == float(default)
    return False


def _npint(v):
    if type(v) is bool:
        return np.bool_(v)  # flags that come out of numpy comparisons (header["node_offset"] == 1)
    if type(v) is int:
        return np.int64(v)
    if type(v) in (tuple, list) and v and all(type(x) is int for x in v):
        return type(v)(np.int64(x) for x in v)
    return v


COORD_NAMES = ("coordinates", "data_coordinates")


def _stacked(name, v, min_ndim=1):
    """float64 coordinate arrays of one shape given as a tuple: the same values as one fresh stacked array (what longitude_continuity hands back and users pipe on)"""
    if name in COORD_NAMES and type(v) in (tuple, list) and len(v) >= 2 and all(type(a) is np.ndarray and a.dtype == np.float64 for a in v) and len({a.shape for a in v}) == 1 and v[0].ndim >= min_ndim:
        return np.array(v)
    return v


SEQ_NAMES = ("region", "shape", "spacing")


def _seqform(name, v):
    """a tuple of plain numbers given for a region, shape or spacing as a list or as one numpy array (documented as 'list', 'tuple' or 'array')"""
    if name in SEQ_NAMES and type(v) is tuple and v and all(type(x) in (int, float) for x in v):
        if SEQFORM == "list":
            return list(v)
        if SEQFORM == "array" and len({type(x) for x in v}) == 1:
            return np.array(v)
    return v


def _positional(order, table, args, kwargs, fill):
    """Moves keyword arguments to positions, following the documented signature, as far as that can be done without skipping a
    parameter; with `fill`, a skipped optional parameter is given its documented default by position so that later ones can follow."""
    args, kwargs = list(args), dict(kwargs)
    names = order[len(args):]
    last = max([i for i, name in enumerate(names) if name in kwargs], default=-1)
    for name in names[:last + 1]:
        if name in kwargs:
            args.append(kwargs.pop(name))
        elif fill and name in table:
            args.append(table[name])
        else:
            break
    return tuple(args), kwargs


class _Proxy:
    """Callable stand-in for a public verde function or class (attribute access is forwarded)."""

    def __init__(self, target, table, equivalent=None, order=None, stack_min_ndim=1):
        self.__dict__["_stack_min_ndim"] = stack_min_ndim
        self.__dict__["_target"] = target
        self.__dict__["_table"] = table
        self.__dict__["_equivalent"] = equivalent or {}
        self.__dict__["_order"] = order

    def __call__(self, *args, **kwargs):
        if ACTIVE:
            kwargs = {k: v for k, v in kwargs.items() if not (k in self._table and _same(v, self._table[k]))}
        if EXPLICIT and self._equivalent and len(args) == 0:
            kwargs = {**self._equivalent, **kwargs}
        if NPINT:
            kwargs = {k: _npint(v) for k, v in kwargs.items()}
        if STACKED:
            kwargs = {k: _stacked(k, v, self._stack_min_ndim) for k, v in kwargs.items()}
            if self._order is not None:
                args = tuple(_stacked(name, v, self._stack_min_ndim) for name, v in zip(self._order, args)) + tuple(args[len(self._order):])
        if SEQFORM:
            kwargs = {k: _seqform(k, v) for k, v in kwargs.items()}
            if self._order is not None:
                args = tuple(_seqform(name, v) for name, v in zip(self._order, args)) + tuple(args[len(self._order):])
        if POSITIONAL and self._order is not None:
            args, kwargs = _positional(self._order, self._table, args, kwargs, fill=not ACTIVE)
        return self._target(*args, **kwargs)

    def __getattr__(self, name):
        return getattr(self._target, name)

    def __repr__(self):
        return repr(self._target)


def install(verde):
    for path, table in DOCUMENTED.items():
        holder = verde
        parts = path.split(".")
        for part in parts[:-1]:
            holder = getattr(holder, part)
        target = getattr(holder, parts[-1])
        if isinstance(target, _Proxy):
            continue
        # (two equally long 1-D axis vectors are not "the coordinates of the points" for make_xarray_grid: only its 2-D meshgrid form is stacked)
        proxy = _Proxy(target, table, EQUIVALENT.get(path), REQUIRED[path] + list(table) if path in REQUIRED else None, stack_min_ndim=2 if path == "make_xarray_grid" else 1)
        setattr(holder, parts[-1], proxy)


def flag_for(case):
    """Whether this case relies on verde's defaults: a pure function of the case (half of them do)."""
    h = hashlib.sha1(json.dumps(case, sort_keys=True, default=str).encode()).digest()
    return h[0] % 2 == 0


def npint_flag_for(case):
    """Whether this case hands its integer keyword arguments over as numpy integers (a third of the cases)."""
    h = hashlib.sha1(json.dumps(case, sort_keys=True, default=str).encode()).digest()
    return h[3] % 3 == 0


def positional_flag_for(case):
    """Whether this case passes its keyword arguments by position (a quarter of the cases)."""
    h = hashlib.sha1(json.dumps(case, sort_keys=True, default=str).encode()).digest()
    return h[4] % 4 == 0


def stacked_flag_for(case):
    """Whether this case hands coordinate tuples over as one stacked array (a fifth of the cases)."""
    h = hashlib.sha1(json.dumps(case, sort_keys=True, default=str).encode()).digest()
    return h[7] % 5 == 0


def seqform_for(case):
    """How this case hands over regions, shapes and spacings written as tuples: as they are (two thirds), as lists or as arrays (a sixth each)."""
    h = hashlib.sha1(json.dumps(case, sort_keys=True, default=str).encode()).digest()
    return {0: "list", 1: "array"}.get(h[6] % 6)


def explicit_flag_for(case):
    """Whether this case spells out the options of EQUIVALENT (a quarter of the cases, independent of flag_for)."""
    h = hashlib.sha1(json.dumps(case, sort_keys=True, default=str).encode()).digest()
    return h[2] % 4 == 0
