"""Builds verde objects and numpy/pandas containers from JSON descriptions."""
import warnings

import numpy as np
import pandas as pd
import verde as vd

REDUCTIONS = {"mean": np.mean, "median": np.median, "min": np.min, "max": np.max, "average": np.average}


def quiet(fn, *a, **k):
    with warnings.catch_warnings():
        warnings.simplefilter("ignore")
        return fn(*a, **k)


def make_estimator(spec):
    """spec: dict(kind=..., **params).  Nested for chain/vector."""
    kind = spec["kind"]
    if kind == "spline":
        kw = {}
        if spec.get("damping") is not None:
            kw["damping"] = spec["damping"]
        if spec.get("mindist") is not None:
            kw["mindist"] = spec["mindist"]
        return quiet(vd.Spline, **kw)
    if kind == "trend":
        return vd.Trend(spec.get("degree", 1))
    if kind == "knn":
        return vd.KNeighbors(k=spec.get("k", 1), reduction=REDUCTIONS[spec.get("reduction", "mean")])
    if kind == "linear":
        return vd.Linear(rescale=spec.get("rescale", False))
    if kind == "cubic":
        return vd.Cubic(rescale=spec.get("rescale", False))
    if kind == "vectorspline":
        return vd.VectorSpline2D(poisson=spec.get("poisson", 0.5), mindist=spec.get("mindist", 1.0), damping=spec.get("damping"))
    if kind == "vector":
        return vd.Vector([make_estimator(s) for s in spec["components"]])
    if kind == "chain":
        if spec.get("labels") == "kind":
            # labels carry no meaning for fitting: two steps of the same kind share a label
            return vd.Chain([(s["kind"], make_estimator(s)) for s in spec["steps"]])
        return vd.Chain([("step%d" % i, make_estimator(s)) for i, s in enumerate(spec["steps"])])
    if kind == "blockreduce":
        kw = dict(center_coordinates=spec.get("center", False))
        if "spacing" in spec:
            kw["spacing"] = spec["spacing"] if not isinstance(spec["spacing"], list) else tuple(spec["spacing"])
        if "shape" in spec:
            kw["shape"] = tuple(spec["shape"])
        if spec.get("region") is not None:
            kw["region"] = tuple(spec["region"])
        return vd.BlockReduce(REDUCTIONS[spec.get("reduction", "mean")], **kw)
    if kind == "blockmean":
        kw = dict(center_coordinates=spec.get("center", False), uncertainty=spec.get("uncertainty", False))
        if "spacing" in spec:
            kw["spacing"] = spec["spacing"] if not isinstance(spec["spacing"], list) else tuple(spec["spacing"])
        if "shape" in spec:
            kw["shape"] = tuple(spec["shape"])
        if spec.get("region") is not None:
            kw["region"] = tuple(spec["region"])
        return vd.BlockMean(**kw)
    if kind == "splinecv":
        return quiet(vd.SplineCV, dampings=tuple(spec["dampings"]), cv=spec.get("cv"))
    raise ValueError(kind)


def ncomponents(spec):
    kind = spec["kind"]
    if kind == "vectorspline":
        return 2
    if kind == "vector":
        return len(spec["components"])
    if kind == "chain":
        for s in spec["steps"]:
            if s["kind"] in ("vector", "vectorspline", "chain"):
                return ncomponents(s)
        return 1
    return 1


def layout(values, how, dtype="float64"):
    """Present the element sequence `values` in the layout `how`:
    dict(kind='1d'|'2d'|'fortran'|'strided'|'series'|'list', shape=[r, c])"""
    a = np.array(values, dtype=dtype)
    kind = how.get("kind", "1d")
    if kind == "1d":
        return a
    if kind == "2d":
        return a.reshape(how["shape"])
    if kind == "fortran":
        return np.asfortranarray(a.reshape(how["shape"]))
    if kind == "strided":
        buf = np.empty(2 * a.size + 1, dtype=a.dtype)
        buf[:] = np.array(12345 if a.dtype.kind == "u" else -12345).astype(a.dtype)  # filler between the elements
        buf[1::2] = a
        return buf[1::2]
    if kind == "series":
        return pd.Series(a, index=np.arange(a.size)[::-1] if how.get("reversed_index") else None)
    raise ValueError(kind)


def arr(values, shape, order="C", dtype="float64"):
    """The element sequence `values` (logical C order) as an array of `shape`
    with memory layout `order`: 'C' contiguous, 'F' Fortran-contiguous,
    'S' a non-contiguous strided view, 'T' a transposed view of a C array."""
    a = np.array(values, dtype=dtype).reshape(shape)
    if a.ndim != 2 or order == "C":
        return a
    if order == "F":
        return np.asfortranarray(a)
    if order == "T":
        return np.ascontiguousarray(a.T).T
    if order == "S":
        buf = np.full((a.shape[0] * 2, a.shape[1] * 2 + 1), np.array(9.87e3 if a.dtype.kind == "u" else -9.87e3).astype(a.dtype), dtype=a.dtype)
        buf[::2, 1::2] = a
        return buf[::2, 1::2]
    raise ValueError(order)


ORDERS = ["C", "C", "F", "T", "S"]


class Lay:
    """Cycles through a list of layout codes so that the arrays of one call get (possibly different) memory layouts."""

    def __init__(self, orders):
        self.orders = list(orders) if orders else ["C"]
        self.i = 0

    def __call__(self, values, shape, dtype="float64"):
        o = self.orders[self.i % len(self.orders)]
        self.i += 1
        return arr(values, shape, o, dtype)


def orders_strategy():
    from hypothesis import strategies as st

    return st.lists(st.sampled_from(ORDERS), min_size=1, max_size=4)


def present(a, how):
    """Hand a 1-D numpy array to verde as another container holding the same element sequence:
    'array' (as is), 'series' (pandas Series), 'series_rev' (Series with a reversed, non-default index), 'list'."""
    if how in (None, "array") or np.ndim(a) != 1:
        return a
    if how == "series":
        return pd.Series(np.asarray(a))
    if how == "series_rev":
        return pd.Series(np.asarray(a), index=np.arange(len(a))[::-1])
    if how == "series_mixed":
        # every array gets its own index (a rotation that depends on its content): arguments of one call do not share an index, only positions pair them
        a = np.asarray(a)
        shift = (int(abs(float(a[0])) * 7919) % max(len(a), 1)) if len(a) and np.isfinite(float(a[0])) else 0
        return pd.Series(a, index=np.roll(np.arange(len(a)), shift))
    raise ValueError(how)


# "series_mixed" (every argument with its own index) is deliberately NOT among the generated containers: for Series whose indexes differ, pairing by
# position and pairing by label are both defensible and the properties do not say which; verde.inside, for one, pairs by label (DESIGN.md 8.2)
CONTAINERS = ["array", "array", "array", "series", "series_rev"]


def small_hash(case, byte):
    """byte `byte` of the SHA-1 of a case: a source of per-case choices that is a pure function of the case"""
    import hashlib, json

    text = json.dumps(case, sort_keys=True, default=str)
    if byte >= 20:  # (a SHA-1 digest has 20 bytes: further independent choices come from a salted digest)
        return hashlib.sha1((text + "#%d" % byte).encode()).digest()[0]
    return hashlib.sha1(text.encode()).digest()[byte]


def stack_flag(case):
    """a quarter of the cases hand their coordinates over as one stacked array (see maybe_stack): a pure function of the case"""
    return small_hash(case, 15) % 4 == 0


def maybe_stack(coords, flag):
    """The coordinate arrays as ONE array of shape (n_coordinates, ...) - the form in which verde.longitude_continuity returns coordinates and in
    which users pipe them into the next function - when `flag` is set and they are float64 arrays of one shape; otherwise the tuple as it is."""
    if flag and len(coords) >= 2 and all(type(a) is np.ndarray and a.dtype == np.float64 for a in coords) and len({a.shape for a in coords}) == 1:
        return np.array(coords)
    return coords


def plain_flag(case):
    """Whether whole-number scalars of this case (region bounds, spacings, sizes, pads) are handed to verde as Python ints instead of
    floats: a pure function of the case (a third of them)."""
    import hashlib
    import json

    return hashlib.sha1(json.dumps(case, sort_keys=True, default=str).encode()).digest()[1] % 3 == 0


def plain(v, on=True):
    """v as a Python int when it is a whole number (and `on`), else unchanged; lists and tuples element-wise"""
    if isinstance(v, (list, tuple)):
        return type(v)(plain(x, on) for x in v)
    return int(v) if on and isinstance(v, float) and v.is_integer() and abs(v) < 2**53 else v


def numpy_ints(seq, case, byte=16):
    """A region / pair of bounds whose entries are all Python ints (see plain) in the forms other verde functions hand them on: as they are, as
    numpy int64 scalars (get_region of whole-metre coordinate arrays) or as one int64 array (longitude_continuity of an integer region)."""
    if not (isinstance(seq, (list, tuple)) and seq and all(type(x) is int for x in seq)):
        return seq
    form = small_hash(case, byte) % 3
    if form == 1:
        return type(seq)(np.int64(x) for x in seq)
    if form == 2:
        return np.array(seq, dtype="int64")
    return seq


TABLES = [None, None, None, "en", "ne", "rev", "rows"]


def table_views(e, n, how):
    """1-D easting and northing as views of ONE 2-D table (columns of an (n, 2) array in either order, reversed rows, or
    rows of a (2, n) array) - what `table[:, 0], table[:, 1]` or `*table.T` hand over.  Other shapes are returned unchanged."""
    e, n = np.asarray(e), np.asarray(n)
    if how is None or e.ndim != 1 or e.dtype != n.dtype:
        return e, n
    if how == "en":
        t = np.column_stack([e, n])
        return t[:, 0], t[:, 1]
    if how == "ne":
        t = np.column_stack([n, e])
        return t[:, 1], t[:, 0]
    if how == "rev":
        t = np.column_stack([e[::-1], n[::-1]])
        return t[::-1, 0], t[::-1, 1]
    t = np.vstack([e, n])
    return t[0], t[1]


# how a scalar-or-sequence argument (extra_coords, region, shape, spacing, points, sizes...) is handed to verde
SEQS = ["list", "list", "tuple", "array", "array"]


def seq(values, how):
    """The same value(s) as a list / tuple / ndarray; a lone scalar as a Python
    float, a numpy scalar or a 0-d array."""
    if isinstance(values, (list, tuple)):
        if how == "tuple":
            return tuple(values)
        if how == "array":
            return np.array(values, dtype="float64")
        return list(values)
    if how == "tuple":
        return np.float64(values)
    if how == "array":
        return np.array(values, dtype="float64")
    return values
