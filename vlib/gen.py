"""Shared Hypothesis strategies.  Every strategy returns plain JSON-able
values (floats, ints, strings, lists, dicts); arrays are built from them in
the sub-check bodies (vlib/build.py)."""
import math

from hypothesis import strategies as st

# "irrational-looking" fractions of a cell, all in (0.1, 0.9); used to put
# points in general position by construction
JITTER = [0.137, 0.291, 0.443, 0.577, 0.619, 0.733, 0.811, 0.859, 0.173, 0.367, 0.523, 0.683]

OFFSETS = [0.0, 0.0, 1.0, -1.0, 10.0, -10.0, 100.0, -100.0, 1000.0, -1000.0]


def finite(lo, hi):
    return st.floats(min_value=lo, max_value=hi, allow_nan=False, allow_infinity=False, width=64)


def log_uniform(lo_exp, hi_exp):
    return finite(lo_exp, hi_exp).map(lambda k: 10.0 ** k)


def nice_or_free(lo, hi):
    """Mostly 'nice' values (integers, halves, tenths) in [lo, hi], sometimes
    any float."""
    return st.one_of(
        st.integers(math.ceil(lo), math.floor(hi)).map(float),
        st.integers(math.ceil(lo * 2), math.floor(hi * 2)).map(lambda k: k / 2.0),
        st.integers(math.ceil(lo * 10), math.floor(hi * 10)).map(lambda k: k / 10.0),
        finite(lo, hi),
    )


START_TABLE = [-5.0, 0.0, 1.0 / 3.0, 1000.0, -1e6 + 1.0 / 7.0, -0.25, 123456.789, -3600.0]


@st.composite
def intervals(draw, allow_degenerate=True, max_exp=6):
    """(start, stop) with start <= stop: negative, large-offset and (optionally)
    degenerate intervals."""
    start = draw(st.one_of(st.sampled_from(START_TABLE), finite(-1e6, 1e6), st.integers(-1000, 1000).map(float)))
    kind = draw(st.sampled_from(["int", "frac", "free", "free", "zero"] if allow_degenerate else ["int", "frac", "free"]))
    if kind == "zero":
        return start, start
    if kind == "int":
        ext = float(draw(st.integers(1, 400)))
    elif kind == "frac":
        ext = draw(st.integers(1, 60)) / float(draw(st.sampled_from([2, 3, 4, 5, 7, 8, 10, 16])))
    else:
        ext = draw(log_uniform(-3, max_exp))
    stop = start + ext
    if not stop > start:  # extent below the resolution of start
        stop = math.nextafter(start, math.inf)
    return start, stop


@st.composite
def regions(draw, allow_degenerate=False, max_exp=6):
    w, e = draw(intervals(allow_degenerate, max_exp))
    s, n = draw(intervals(allow_degenerate, max_exp))
    if draw(st.integers(0, 5)) == 0:
        s, n = w, e  # a square region with the same limits in both directions (W == S, E == N)
    return [w, e, s, n]


@st.composite
def spacing_for(draw, start, stop, max_nodes=200):
    """A positive spacing for the interval: dividing it, not dividing it, an
    exact .5 tie, larger than the extent, larger than twice the extent, or a
    free float -- always with at most max_nodes nodes."""
    ext = stop - start
    if ext <= 0:
        return draw(st.one_of(log_uniform(-3, 3), st.integers(1, 10).map(float)))
    kind = draw(st.sampled_from(["divide", "nondivide", "tie", "larger", "twice", "free"]))
    if kind == "divide":
        sp = ext / draw(st.integers(1, max_nodes - 1))
    elif kind == "nondivide":
        k = draw(st.integers(1, max_nodes - 2))
        sp = ext / (k + draw(st.sampled_from([0.1, 0.25, 0.3, 0.49, 0.51, 0.7, 0.75, 0.9])))
    elif kind == "tie":
        k = draw(st.integers(0, min(60, max_nodes - 2)))
        sp = ext / (k + 0.5)
    elif kind == "larger":
        sp = ext * draw(finite(1.01, 1.99))
    elif kind == "twice":
        sp = ext * draw(finite(2.0, 50.0))
    else:
        sp = ext / draw(finite(0.2, max_nodes - 1.5))
    if not (sp > 0 and math.isfinite(sp)):
        sp = ext
    return sp


# --------------------------------------------------------------------------
# point clouds in general position by construction (C01, C02, C04, C06, C12, C20)
# --------------------------------------------------------------------------
RATIOS = [0.0, 0.0, 0.0, 1.0, -1.0, 10.0, -10.0, 100.0, -100.0, 1000.0, -1000.0]


# Exact structure that real data sets have and jittered points lack (opt-in per check, see clouds(structures=...)):
#   grid / grid_shuffled  the chosen cells at their exact lattice positions (a previously gridded data set), row-major or in drawn order
#   grid_full             every node of a rectangle of the lattice, row-major, south to north
#   grid_full_north_up    the same stored north to south (rasters)
#   lines_ns / lines_we   survey lines: all points of a lattice column (row) share exactly one easting (northing)
#   sorted_n / sorted_e_desc  jittered points stored in ascending northing / descending easting order
STRUCTURES = ["grid", "grid_shuffled", "grid_full", "grid_full_north_up", "lines_ns", "lines_we", "sorted_n", "sorted_e_desc"]


@st.composite
def clouds(draw, min_n=1, max_n=40, max_exp=6, min_exp=-2, ratios=RATIOS, aspects=(1.0, 1.0, 0.1, 10.0, 3.0), structures=None):
    """A jittered-lattice cloud: pairwise distinct points, no three exactly
    collinear lattice artefacts thanks to the irrational-looking jitter.
    Returns a JSON description; coordinates come from cloud_xy().
    With `structures` (a list drawn from STRUCTURES), a third of the clouds have that exact structure instead of the jitter."""
    n = draw(st.integers(min_n, max_n))
    side = max(3, int(math.ceil(math.sqrt(n))) + draw(st.integers(1, 4)))
    cells = draw(st.lists(st.tuples(st.integers(0, side - 1), st.integers(0, side - 1)), min_size=n, max_size=n, unique=True))
    k = draw(st.integers(min_exp, max_exp))
    out = dict(cells=[list(c) for c in cells], side=side, scale=10.0 ** k, aspect=draw(st.sampled_from(list(aspects))),
               ratio=[draw(st.sampled_from(list(ratios))), draw(st.sampled_from(list(ratios)))])
    if structures and draw(st.integers(0, 2)) == 0:
        structure = draw(st.sampled_from(list(structures)))
        out["structure"] = structure
        if structure.startswith("grid_full"):
            # a full p x q rectangle of the lattice with about as many nodes as were asked for
            p = draw(st.integers(1, max(1, min(side, n))))
            q = max(1, min(side, n // p))
            while p * q < min_n:
                q += 1
            out["side"] = max(side, p, q)
            rows = range(q) if structure == "grid_full" else range(q - 1, -1, -1)
            out["cells"] = [[a, b] for b in rows for a in range(p)]
        elif structure == "grid":
            out["cells"] = sorted(out["cells"], key=lambda c: (c[1], c[0]))
    return out


def cloud_xy(c):
    """(easting list, northing list) of a cloud description"""
    ext_e = c["scale"] * c["side"]
    ext_n = c["scale"] * c["aspect"] * c["side"]
    es, ns = [], []
    structure = c.get("structure")
    if structure in ("grid", "grid_shuffled", "grid_full", "grid_full_north_up", "lines_ns", "lines_we"):
        for a, b in c["cells"]:
            on_e = structure != "lines_we"  # exact lattice easting (shared by the whole column)
            on_n = structure != "lines_ns"
            je = 0.5 if structure.startswith("grid") else JITTER[(5 * a) % 12]
            jn = 0.5 if structure.startswith("grid") else JITTER[(7 * b + 4) % 12]
            es.append(c["ratio"][0] * ext_e + c["scale"] * (a + (je if on_e else JITTER[(5 * a + 3 * b) % 12] + 1e-3 * ((31 * a + 17 * b) % 101) / 101.0)))
            ns.append(c["ratio"][1] * ext_n + c["scale"] * c["aspect"] * (b + (jn if on_n else JITTER[(a + 7 * b + 4) % 12] + 1e-3 * ((13 * a + 29 * b) % 97) / 97.0)))
        return es, ns
    for a, b in c["cells"]:
        # table jitter plus a micro-jitter unique to the cell, so that no two cells share both offsets (no exact rectangles / cocircular quadruples)
        es.append(c["ratio"][0] * ext_e + c["scale"] * (a + JITTER[(5 * a + 3 * b) % 12] + 1e-3 * ((31 * a + 17 * b) % 101) / 101.0))
        ns.append(c["ratio"][1] * ext_n + c["scale"] * c["aspect"] * (b + JITTER[(a + 7 * b + 4) % 12] + 1e-3 * ((13 * a + 29 * b) % 97) / 97.0))
    if structure in ("sorted_n", "sorted_e_desc"):
        order = sorted(range(len(es)), key=(lambda i: (ns[i], es[i])) if structure == "sorted_n" else (lambda i: (-es[i], ns[i])))
        es, ns = [es[i] for i in order], [ns[i] for i in order]
    return es, ns


def cloud_query(c, fracs):
    """points at fractional lattice positions [[fa, fb], ...] of the cloud's frame"""
    ext_e = c["scale"] * c["side"]
    ext_n = c["scale"] * c["aspect"] * c["side"]
    return ([c["ratio"][0] * ext_e + c["scale"] * fa for fa, fb in fracs], [c["ratio"][1] * ext_n + c["scale"] * c["aspect"] * fb for fa, fb in fracs])


@st.composite
def data_values(draw, n, kind=None):
    """finite data: magnitudes 1e-6..1e6 by default, zeros, repeats, sign mixes"""
    kind = kind or draw(st.sampled_from(["unit", "int", "big", "small", "mixed"]))
    if kind == "unit":
        return draw(st.lists(finite(-1, 1), min_size=n, max_size=n))
    if kind == "int":
        return [float(v) for v in draw(st.lists(st.integers(-20, 20), min_size=n, max_size=n))]
    if kind == "big":
        return draw(st.lists(finite(-1e6, 1e6), min_size=n, max_size=n))
    if kind == "small":
        return draw(st.lists(finite(-1e-6, 1e-6), min_size=n, max_size=n))
    if kind == "huge":
        return draw(st.lists(finite(-1e100, 1e100), min_size=n, max_size=n))
    return draw(st.lists(st.one_of(st.just(0.0), finite(-1e3, 1e3), st.sampled_from([1.0, -1.0, 5.0])), min_size=n, max_size=n))


def weights_values(n):
    return st.lists(st.one_of(st.integers(1, 9).map(float), finite(0.01, 100)), min_size=n, max_size=n)
