"""Independent implementations of the documented analytic models (never import verde).

float64/numpy versions are used to assemble reference least-squares problems
(C01, C02, C06); mpmath versions (50 digits) judge single kernel values (C03)."""
import math

import mpmath
import numpy as np

mpmath.mp.dps = 50


# ------------------------------------------------------------ biharmonic spline
def spline_green(r):
    """g(r) = r^2 (ln r - 1), g(0) = 0 (numpy float64)"""
    r = np.asarray(r, dtype="float64")
    out = np.zeros_like(r)
    nz = r > 0
    out[nz] = r[nz] ** 2 * (np.log(r[nz]) - 1.0)
    return out


def spline_jacobian(e, n, fe, fn, mindist=0.0):
    e, n, fe, fn = (np.asarray(a, dtype="float64").ravel() for a in (e, n, fe, fn))
    r = np.hypot(e[:, None] - fe[None, :], n[:, None] - fn[None, :]) + mindist
    return spline_green(r)


def spline_green_mp(dx, dy, mindist):
    rho = mpmath.sqrt(mpmath.mpf(dx) ** 2 + mpmath.mpf(dy) ** 2) + mpmath.mpf(mindist)
    if rho == 0:
        return mpmath.mpf(0), rho
    return rho**2 * (mpmath.log(rho) - 1), rho


# ------------------------------------------------------------ elastic vector spline
def vector_greens(dx, dy, mindist, poisson):
    dx, dy = np.asarray(dx, dtype="float64"), np.asarray(dy, dtype="float64")
    rho = np.hypot(dx, dy) + mindist
    ln = (3.0 - poisson) * np.log(rho)
    k = (1.0 + poisson) / rho**2
    return ln + k * dy**2, ln + k * dx**2, -k * dx * dy  # ee, nn, ne


def vector_jacobian(e, n, fe, fn, mindist, poisson):
    e, n, fe, fn = (np.asarray(a, dtype="float64").ravel() for a in (e, n, fe, fn))
    dx, dy = e[:, None] - fe[None, :], n[:, None] - fn[None, :]
    ee, nn, ne = vector_greens(dx, dy, mindist, poisson)
    return np.block([[ee, ne], [ne, nn]])


def vector_greens_mp(dx, dy, mindist, poisson):
    dx, dy, nu = mpmath.mpf(dx), mpmath.mpf(dy), mpmath.mpf(poisson)
    rho = mpmath.sqrt(dx**2 + dy**2) + mpmath.mpf(mindist)
    ln = (3 - nu) * mpmath.log(rho)
    k = (1 + nu) / rho**2
    return ln + k * dy**2, ln + k * dx**2, -k * dx * dy, rho


# ------------------------------------------------------------ polynomial trend
def monomials(degree):
    """Documented order: increasing total degree; within a total degree the
    power of easting decreases (1, e, n, e^2, e n, n^2, ...)."""
    out = []
    for total in range(degree + 1):
        for j in range(total + 1):
            out.append((total - j, j))
    return out


def trend_jacobian(e, n, degree):
    e, n = np.asarray(e, dtype="float64").ravel(), np.asarray(n, dtype="float64").ravel()
    return np.column_stack([e**i * n**j for i, j in monomials(degree)])


# ------------------------------------------------------------ reference least squares
def reference_fit(jac, data, weights=None, damping=None):
    """Minimise sum w (d - (J/s) p')^2 + damping |p'|^2 with s the population
    standard deviation of each column (1 for constant columns); returns
    (p = p'/s, scale s, condition number of the augmented scaled system,
    optimal objective).  SVD based; never the normal equations."""
    jac = np.asarray(jac, dtype="float64")
    data = np.asarray(data, dtype="float64").ravel()
    s = jac.std(axis=0)
    s[s == 0] = 1.0
    a = jac / s
    w = np.ones(data.size) if weights is None else np.asarray(weights, dtype="float64").ravel()
    sw = np.sqrt(w)
    aug = a * sw[:, None]
    rhs = data * sw
    if damping is not None:
        aug = np.vstack([aug, math.sqrt(damping) * np.eye(a.shape[1])])
        rhs = np.concatenate([rhs, np.zeros(a.shape[1])])
    u, sv, vt = np.linalg.svd(aug, full_matrices=False)
    cond = sv[0] / sv[-1] if sv[-1] > 0 else np.inf
    keep = sv > sv[0] * np.finfo("float64").eps * max(aug.shape)
    pp = vt[keep].T @ ((u[:, keep].T @ rhs) / sv[keep])
    obj = objective(a, data, w, damping, pp)
    return pp / s, s, cond, obj


def objective(a_scaled, data, w, damping, p_scaled):
    r = data - a_scaled @ p_scaled
    val = float(np.sum(w * r * r))
    if damping is not None:
        val += damping * float(p_scaled @ p_scaled)
    return val
