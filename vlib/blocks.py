"""Block layouts with membership known by construction (C08, C09, C10, C11).

An *effective* block grid (W, S, dx, dy, nb_n, nb_e) is chosen first; points
are placed at (W + (kx + fx) dx, S + (ky + fy) dy); then one of several
presentations of that grid is chosen for verde (shape, spacing that divides,
spacing to be adjusted, region to be adjusted, region inferred from the data).
The exact label sets are recomputed from the float coordinates in rational
arithmetic, so the oracle never relies on verde."""
import math
from fractions import Fraction

import numpy as np
from hypothesis import strategies as st

from . import gen

TIE = Fraction(1, 10**9)
INTERIOR = [0.02, 0.137, 0.291, 0.443, 0.5, 0.577, 0.619, 0.733, 0.811, 0.98]


@st.composite
def layouts(draw, max_blocks=6, presentations=("shape", "spacing_exact", "adjust_spacing", "adjust_region", "inferred"),
            nice=False):
    nb_n = draw(st.integers(1, max_blocks))
    nb_e = draw(st.integers(1, max_blocks))
    if nice:
        W = float(draw(st.integers(-50, 50)))
        S = float(draw(st.integers(-50, 50)))
        dx = draw(st.sampled_from([0.5, 1.0, 2.0, 4.0, 0.25, 8.0]))
        dy = draw(st.sampled_from([0.5, 1.0, 2.0, 4.0, 0.25, 8.0]))
    else:
        W = draw(st.one_of(st.sampled_from([0.0, -5.0, 1000.0, -123456.5]), gen.finite(-1e5, 1e5)))
        S = draw(st.one_of(st.sampled_from([0.0, -5.0, 1000.0, -123456.5]), gen.finite(-1e5, 1e5)))
        dx = draw(st.one_of(st.sampled_from([1.0, 0.5, 3.0, 10.0, 0.1]), gen.log_uniform(-2, 3)))
        dy = draw(st.one_of(st.sampled_from([1.0, 0.5, 3.0, 10.0, 0.1]), gen.log_uniform(-2, 3)))
    pres = draw(st.sampled_from(list(presentations)))
    pixel = draw(st.sampled_from(PIXEL_DTYPES)) if not nice else None
    if pixel:
        # "pixel" layouts: integer block grid, integer-valued coordinates stored with a narrow / unsigned / single-precision dtype, region and spacing as Python ints
        W, S = float(draw(st.integers(40, 1000))), float(draw(st.integers(40, 1000)))
        dx, dy = float(draw(st.sampled_from([2, 3, 4, 5, 8, 10, 20]))), float(draw(st.sampled_from([2, 3, 4, 5, 8, 10, 20])))
    lay = dict(W=W, S=S, dx=dx, dy=dy, nb_n=nb_n, nb_e=nb_e, pres=pres)
    if pixel:
        lay["pixel"] = pixel
    if pres in ("adjust_spacing", "adjust_region", "inferred_spacing"):
        lay["te"] = draw(st.sampled_from([-0.4, -0.25, 0.1, 0.3, 0.4, 0.0]))
        lay["tn"] = draw(st.sampled_from([-0.4, -0.25, 0.1, 0.3, 0.4, 0.0]))
    if pres in ("spacing_exact",) and dx == dy:
        lay["scalar_spacing"] = draw(st.booleans())
    return lay


PIXEL_DTYPES = [None] * 5 + ["uint16", "uint32", "uint64", "int16", "int32", "float32"]


def pixel_array(lay, a):
    """Integer-valued version of coordinate array *a* in the layout's pixel dtype (unchanged for ordinary layouts)."""
    if not lay.get("pixel"):
        return a
    a = np.rint(a)
    if lay["pixel"].startswith("uint"):
        a = np.clip(a, 0, None)
    return a.astype(lay["pixel"])


def _plain(v):
    return int(v) if float(v).is_integer() else v


def effective_region(lay):
    return [lay["W"], lay["W"] + lay["nb_e"] * lay["dx"], lay["S"], lay["S"] + lay["nb_n"] * lay["dy"]]


def verde_kwargs(lay, _raw=False):
    """Arguments (spacing/shape/region/adjust) that make verde use the
    effective grid.  For 'inferred' the caller must include the SW and NE
    corners of the effective region among the points."""
    if lay.get("pixel") and not _raw:
        kw = verde_kwargs(lay, _raw=True)
        for key in ("region", "spacing"):
            if key in kw:
                kw[key] = tuple(_plain(v) for v in kw[key]) if isinstance(kw[key], tuple) else _plain(kw[key])
        return kw
    W, E, S, N = effective_region(lay)
    pres = lay["pres"]
    if pres == "shape":
        return dict(region=(W, E, S, N), shape=(lay["nb_n"], lay["nb_e"]))
    if pres == "spacing_exact":
        if lay.get("scalar_spacing"):
            return dict(region=(W, E, S, N), spacing=lay["dx"])
        return dict(region=(W, E, S, N), spacing=(lay["dy"], lay["dx"]))
    if pres == "adjust_spacing":
        return dict(region=(W, E, S, N), adjust="spacing",
                    spacing=((N - S) / (lay["nb_n"] + lay["tn"]), (E - W) / (lay["nb_e"] + lay["te"])))
    if pres == "adjust_region":
        return dict(region=(W, W + (lay["nb_e"] + lay["te"]) * lay["dx"], S, S + (lay["nb_n"] + lay["tn"]) * lay["dy"]),
                    adjust="region", spacing=(lay["dy"], lay["dx"]))
    if pres == "inferred":
        return dict(shape=(lay["nb_n"], lay["nb_e"]))
    if pres == "inferred_spacing":
        return dict(spacing=((N - S) / (lay["nb_n"] + lay.get("tn", 0.0)), (E - W) / (lay["nb_e"] + lay.get("te", 0.0))))
    raise ValueError(pres)


def grid_from_kwargs(kw, coords=None):
    """Exact (W, S, dx, dy, nb_n, nb_e) candidates that the *documented* rules
    give for these verde arguments (list: several when a rounding tie)."""
    from .oracles import interval_counts

    if "region" in kw:
        W, E, S, N = [Fraction(v) for v in kw["region"]]
    else:
        W, E = Fraction(float(np.min(coords[0]))), Fraction(float(np.max(coords[0])))
        S, N = Fraction(float(np.min(coords[1]))), Fraction(float(np.max(coords[1])))
    if "shape" in kw:
        nb_n, nb_e = kw["shape"]
        return [dict(W=W, S=S, dx=(E - W) / nb_e, dy=(N - S) / nb_n, nb_n=nb_n, nb_e=nb_e)]
    sp = kw["spacing"]
    sp_n, sp_e = (sp, sp) if not isinstance(sp, tuple) else sp
    out = []
    for ne in interval_counts(W, E, sp_e):
        for nn in interval_counts(S, N, sp_n):
            if kw.get("adjust", "spacing") == "spacing":
                out.append(dict(W=W, S=S, dx=(E - W) / ne, dy=(N - S) / nn, nb_n=nn, nb_e=ne))
            else:
                out.append(dict(W=W, S=S, dx=Fraction(sp_e), dy=Fraction(sp_n), nb_n=nn, nb_e=ne))
    return out


def big_cloud(case):
    """Many points on a dyadic sub-lattice of an (nb_n x nb_e)-block grid, never on a block edge, some outside the region; returns
    (easting, northing, label by floor division, region, spacing).  `case`: dict(nb_n, nb_e, W, S, dx, dy, n, seed) with dyadic W, S, dx, dy."""
    rng = np.random.RandomState(case["seed"])  # a pure function of the generated case
    nb_n, nb_e, n = case["nb_n"], case["nb_e"], case["n"]
    sub = 8
    ix = rng.randint(-sub, (nb_e + 1) * sub, size=n)
    iy = rng.randint(-sub, (nb_n + 1) * sub, size=n)
    # the first two points pin the corners of the region (an inferred region is then the block grid's region)
    e = case["W"] + (ix + 0.5) * (case["dx"] / sub)
    nn = case["S"] + (iy + 0.5) * (case["dy"] / sub)
    col = np.clip(ix // sub, 0, nb_e - 1)
    row = np.clip(iy // sub, 0, nb_n - 1)
    region = (case["W"], case["W"] + nb_e * case["dx"], case["S"], case["S"] + nb_n * case["dy"])
    return e, nn, row * nb_e + col, region, (case["dy"], case["dx"])


big_cases = st.fixed_dictionaries(dict(nb_n=st.integers(1, 40), nb_e=st.integers(1, 40), W=st.sampled_from([0.0, -512.0, 4096.0, 1e6]), S=st.sampled_from([0.0, 128.0, -2e6]),
                                       dx=st.sampled_from([0.5, 1.0, 4.0, 64.0]), dy=st.sampled_from([0.25, 1.0, 8.0, 64.0]),
                                       n=st.sampled_from([20000, 50001, 120000]), seed=st.integers(0, 10**6), by=st.sampled_from(["spacing", "shape"])))


def point_xy(lay, p):
    kx, fx, ky, fy = p
    if lay.get("pixel"):
        # integer positions; a point meant to be strictly inside a block stays strictly inside
        def pos(lo, k, f, d):
            off = round(f * d)
            if 0 < f < 1 and d >= 2:
                off = min(max(off, 1), int(d) - 1)
            return lo + k * d + off
        return pos(lay["W"], kx, fx, lay["dx"]), pos(lay["S"], ky, fy, lay["dy"])
    return lay["W"] + (kx + fx) * lay["dx"], lay["S"] + (ky + fy) * lay["dy"]


def _axis_set(x, lo, step, n):
    """admissible block indices along one axis for coordinate x (exact)"""
    if step == 0:
        return {0}
    t = (Fraction(float(x)) - lo) / step
    k = math.floor(t)
    cands = {k}
    frac = t - k
    if frac <= TIE:
        cands.add(k - 1)
    if 1 - frac <= TIE:
        cands.add(k + 1)
    return {min(max(c, 0), n - 1) for c in cands}


def admissible_labels(x, y, grid):
    rows = _axis_set(y, grid["S"], grid["dy"], grid["nb_n"])
    cols = _axis_set(x, grid["W"], grid["dx"], grid["nb_e"])
    return {i * grid["nb_e"] + j for i in rows for j in cols}


@st.composite
def interior_points(draw, lay, min_points=1, max_points=40, min_per_block=0, max_per_block=5):
    """Points strictly inside blocks (fractions in [0.02, 0.98]); returns list
    of [kx, fx, ky, fy].  Populations per block are drawn first so that empty,
    single-member and crowded blocks all occur."""
    pts = []
    nb = lay["nb_n"] * lay["nb_e"]
    pops = draw(st.lists(st.integers(min_per_block, max_per_block), min_size=nb, max_size=nb))
    if sum(pops) < min_points:
        pops[draw(st.integers(0, nb - 1))] += min_points - sum(pops)
    frac = st.one_of(st.sampled_from(INTERIOR), gen.finite(0.02, 0.98))
    for b, pop in enumerate(pops):
        i, j = divmod(b, lay["nb_e"])
        for _ in range(pop):
            if len(pts) >= max_points:
                break
            pts.append([j, draw(frac), i, draw(frac)])
    order = draw(st.permutations(range(len(pts))))
    return [pts[k] for k in order]


def corner_points(lay):
    """SW and NE corners of the effective region (needed by 'inferred')."""
    return [[0, 0.0, 0, 0.0], [lay["nb_e"] - 1, 1.0, lay["nb_n"] - 1, 1.0]]


def shape_options(n):
    opts = [[n]]
    for k in (2, 3, 4, 5):
        if n % k == 0 and n // k >= 1:
            opts.append([k, n // k])
    opts.append([n, 1])
    # three-dimensional arrays (a grid with a third axis, a stack of survey lines): everything that takes "arrays of any shape" flattens them
    if n % 4 == 0:
        opts.append([2, 2, n // 4])
    if n % 6 == 0:
        opts.append([n // 6, 3, 2])
    if n % 3 == 0 and n > 3:
        opts.append([1, 3, n // 3])
    return opts


def exact_membership(flat_e, flat_n, kw, coords=None):
    """(grid, labels) with the unique exact label of every point; None when a
    point is within round-off of an edge or the grid rule has a tie."""
    cands = grid_from_kwargs(kw, coords)
    if len(cands) != 1:
        return None
    g = cands[0]
    labels = []
    for x, y in zip(flat_e, flat_n):
        adm = admissible_labels(x, y, g)
        if len(adm) != 1:
            return None
        labels.append(next(iter(adm)))
    return g, labels


def block_centre(g, b):
    i, j = divmod(b, g["nb_e"])
    return float(g["W"] + Fraction(2 * j + 1, 2) * g["dx"]), float(g["S"] + Fraction(2 * i + 1, 2) * g["dy"])
