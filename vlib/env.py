"""Process bootstrap shared by every entry point.

* pins BLAS/OpenMP to one thread (parallelism comes from the process pool;
  single-threaded BLAS keeps repeated fits bit-reproducible),
* re-execs with PYTHONHASHSEED=0 when it is unset,
* puts the repository (VERIF_REPO, default /repo) first on sys.path and aborts
  with exit code 2 when ``verde`` is not imported from there,
* makes /verif/.deps importable (mpmath, atheris), installing from the offline
  wheelhouse when missing.
"""
import os
import subprocess
import sys

VERIF = os.path.dirname(os.path.dirname(os.path.abspath(__file__)))
REPO = os.path.abspath(os.environ.get("VERIF_REPO", "/repo"))
DEPS = os.path.join(VERIF, ".deps")
GUARD = "FATIANDO_VERDE_VERIF"


def bootstrap(reexec=True):
    for var in ("OMP_NUM_THREADS", "OPENBLAS_NUM_THREADS", "MKL_NUM_THREADS", "NUMEXPR_NUM_THREADS"):
        os.environ[var] = "1"
    os.environ.setdefault(GUARD, "1")
    if reexec and os.environ.get("PYTHONHASHSEED") != "0":
        os.environ["PYTHONHASHSEED"] = "0"
        os.execv(sys.executable, [sys.executable] + sys.argv)
    if VERIF not in sys.path:
        sys.path.insert(0, VERIF)
    if DEPS not in sys.path:
        sys.path.insert(1, DEPS)
    # the repository must win over any installed copy
    sys.path.insert(0, REPO)
    try:
        import mpmath  # noqa: F401
    except ImportError:
        subprocess.run(["sh", os.path.join(VERIF, "setup.sh")], check=False, stdout=subprocess.DEVNULL)
        import importlib

        importlib.invalidate_caches()
    import warnings

    warnings.filterwarnings("ignore")
    import verde

    where = os.path.abspath(verde.__file__)
    if not where.startswith(REPO + os.sep):
        sys.stderr.write("HARNESS-ERROR: verde imported from %s, not from %s\n" % (where, REPO))
        sys.exit(2)
    if os.environ.get("VERIF_NO_DEFAULTS") != "1":
        from . import defaults

        defaults.install(verde)
    return verde
