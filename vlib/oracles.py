"""Reference models written for the harness only (never import verde here)."""
import math
from fractions import Fraction

import numpy as np

from .runner import Violation


def exact(x, what="a value returned by verde"):
    """Fraction of a float that verde produced; a NaN or infinity there is a
    finding, not a harness error."""
    x = float(x)
    if not math.isfinite(x):
        raise Violation("%s is not finite: %r" % (what, x))
    return Fraction(x)

EPS = float(np.finfo("float64").eps)
TIE = Fraction(1, 10**9)


# --------------------------------------------------------------------------
# regular coordinates in exact rational arithmetic (C07, reused by C05, C08,
# C13, C14)
# --------------------------------------------------------------------------
def interval_counts(start, stop, spacing):
    """Admissible numbers of intervals for a requested spacing: the integer
    nearest to extent/spacing, at least 1; both neighbours when the ratio is
    within 1e-9 (relative) of a .5 tie."""
    start, stop, spacing = Fraction(start), Fraction(stop), Fraction(spacing)
    ratio = (stop - start) / spacing
    lo = math.floor(ratio)
    frac = ratio - lo
    slack = TIE * max(Fraction(1), abs(ratio))
    if abs(frac - Fraction(1, 2)) <= slack:
        cands = {lo, lo + 1}
    elif frac < Fraction(1, 2):
        cands = {lo}
    else:
        cands = {lo + 1}
    return sorted({max(1, int(c)) for c in cands})


def line_models(start, stop, size=None, spacing=None, adjust="spacing", pixel=False):
    """All admissible exact node lists (lists of Fractions) for
    line_coordinates with these arguments, with the effective stop."""
    start_f, stop_f = Fraction(start), Fraction(stop)
    out = []
    if spacing is not None:
        sp = Fraction(spacing)
        for n in interval_counts(start, stop, spacing):
            if adjust == "spacing":
                step = (stop_f - start_f) / n
                last = stop_f
            else:
                step = sp
                last = start_f + n * sp
            if pixel:
                nodes = [start_f + (Fraction(2 * i + 1, 2)) * step for i in range(n)]
            else:
                nodes = [start_f + i * step for i in range(n + 1)]
            out.append(dict(n=n, step=step, last=last, nodes=nodes))
    else:
        if pixel:
            step = (stop_f - start_f) / size
            nodes = [start_f + Fraction(2 * i + 1, 2) * step for i in range(size)]
        else:
            step = (stop_f - start_f) / (size - 1) if size > 1 else Fraction(0)
            nodes = [start_f + i * step for i in range(size)]
        out.append(dict(n=size if pixel else size - 1, step=step, last=stop_f, nodes=nodes))
    return out


def match_line(values, models, start, stop):
    """Index of the first model that the float array matches, or (None, why)."""
    values = np.asarray(values)
    why = []
    for k, m in enumerate(models):
        nodes = m["nodes"]
        if values.ndim != 1 or values.size != len(nodes):
            why.append("size %s != %d" % (values.shape, len(nodes)))
            continue
        scale = max(abs(float(start)), abs(float(stop)), abs(float(m["last"])), 1e-300)
        tol = 8 * EPS * scale
        err = max((abs(exact(v, "a grid/line coordinate") - x) for v, x in zip(values, nodes)), default=Fraction(0))
        if err <= Fraction(tol):
            return k, ""
        why.append("max error %.3e > tol %.3e" % (float(err), tol))
    return None, "; ".join(why)


# --------------------------------------------------------------------------
# misc
# --------------------------------------------------------------------------
def ulp_close(a, b, n=4, scale=None):
    a = np.asarray(a, dtype="float64")
    b = np.asarray(b, dtype="float64")
    if a.shape != b.shape:
        return False
    s = np.maximum(np.abs(a), np.abs(b)) if scale is None else scale
    return bool(np.all(np.abs(a - b) <= n * EPS * s))


# --------------------------------------------------------------------------
# exact convex hulls (C16, C01)
# --------------------------------------------------------------------------
def _cross(o, a, b):
    return (a[0] - o[0]) * (b[1] - o[1]) - (a[1] - o[1]) * (b[0] - o[0])


def convex_hull(points):
    """Andrew's monotone chain on exact numbers (ints or Fractions).  Returns
    the hull vertices in counter-clockwise order without collinear points;
    fewer than 3 vertices means a degenerate (collinear) set."""
    pts = sorted(set((p[0], p[1]) for p in points))
    if len(pts) <= 2:
        return pts
    lower = []
    for p in pts:
        while len(lower) >= 2 and _cross(lower[-2], lower[-1], p) <= 0:
            lower.pop()
        lower.append(p)
    upper = []
    for p in reversed(pts):
        while len(upper) >= 2 and _cross(upper[-2], upper[-1], p) <= 0:
            upper.pop()
        upper.append(p)
    return lower[:-1] + upper[:-1]


def hull_classify(p, hull):
    """('in' | 'on' | 'out', margin) for point p against a ccw hull with >= 3
    vertices; margin = smallest distance (float) to the hull's supporting
    lines for 'in', the largest violation for 'out'."""
    worst = None
    state = "in"
    for k in range(len(hull)):
        a, b = hull[k], hull[(k + 1) % len(hull)]
        c = _cross(a, b, p)
        length = math.hypot(float(b[0] - a[0]), float(b[1] - a[1]))
        dist = float(c) / length
        if c < 0:
            state = "out"
        elif c == 0 and state != "out":
            state = "on"
        if worst is None or dist < worst:
            worst = dist
    return state, worst


def held_prediction(est, qe, qn, what):
    """A prediction is a value: predicting again at as many other points must not change the arrays handed out before."""
    import warnings

    import numpy as np

    with warnings.catch_warnings():
        warnings.simplefilter("ignore")
        first = est.predict((qe, qn))
        first = first if isinstance(first, tuple) else (first,)
        kept = [np.array(p, copy=True) for p in first]
        est.predict((np.asarray(qe, dtype="float64")[::-1] * 1.0009765625 + 0.3125, np.asarray(qn, dtype="float64")[::-1] - 0.4375))
    for k, (p, c) in enumerate(zip(first, kept)):
        if not np.array_equal(np.asarray(p), c, equal_nan=True):
            raise Violation("%s: the prediction at %d points (component %d) changed its contents after predict was called again at as many other points (results of separate calls share memory)"
                            % (what, np.size(qe), k))
