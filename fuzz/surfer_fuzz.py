#!/venv/bin/python
"""atheris target for C19: bytes -> text over the numeric alphabet -> load_surfer,
judged by the same strict-reading oracle as the Hypothesis sub-checks
(checks/c19.py: judge_raw).  One entry function, no global state.

usage: surfer_fuzz.py OUTDIR DTYPE [libFuzzer args...]
Writes OUTDIR/stats.json every 500 executions and OUTDIR/violation.json on the
first violation (then exits with status 77)."""
import json
import os
import sys

HERE = os.path.dirname(os.path.abspath(__file__))
sys.path.insert(0, os.path.dirname(HERE))
from vlib import env  # noqa: E402

env.bootstrap(reexec=False)
import atheris  # noqa: E402

with atheris.instrument_imports(include=["verde.io"]):
    import verde.io  # noqa: F401,E402
from checks import c19  # noqa: E402
from vlib.runner import Ctx, Violation, case_hash  # noqa: E402

OUTDIR, DTYPE = sys.argv[1], sys.argv[2]
STATS = dict(executions=0, labels={}, loaded_hashes=[], samples=[])


NUMCH = "0123456789+-.eE"
SEPS = [" ", "  ", "\t", " \t", "   "]


def decode(data):
    """Data-provider layer: bytes -> a Surfer text that is usually close to
    well formed (so the fuzzer reaches the value/shape/range logic instead of
    dying in the header), with every structural choice and every character of
    every number still under the fuzzer's control."""
    it = iter(data)

    def nxt():
        return next(it, 0)

    nr, nc = 2 + nxt() % 4, 2 + nxt() % 4
    toks = []
    for _ in range(nr * nc):
        b = nxt()
        tok = ""
        if b & 1:
            tok += "+-"[(b >> 1) & 1]
        tok += "".join("0123456789"[nxt() % 10] for _ in range(1 + (b >> 2) % 4))
        if b & 16:
            tok += "." + "".join("0123456789"[nxt() % 10] for _ in range((b >> 5) % 3))
        if b & 128:
            e = nxt()
            tok += "eE"[e & 1] + ["", "+", "-"][(e >> 1) % 3] + str((e >> 3) % 40)
        if nxt() % 16 == 0:  # raw damage
            pos = nxt() % (len(tok) + 1)
            tok = tok[:pos] + NUMCH[nxt() % len(NUMCH)] + tok[pos:]
        if nxt() % 24 == 0:
            tok = ["1.70141e38", "1.70141e+038", "3e38", "1.7014100000000001e+38"][nxt() % 4]
        toks.append(tok)
    try:
        vals = [float(t) for t in toks]
        good = [v for v in vals if not v >= c19.BLANK and v == v and abs(v) != float("inf")]
        z = "%r %r" % (min(good), max(good)) if good else "0 1"
    except ValueError:
        z = "0 1"
    hm = nxt() % 16
    counts = "%d %d" % (nr, nc)
    if hm == 1:
        counts = "%d %d" % (nr + 1, nc)
    elif hm == 2:
        counts = "%d %d" % (nc, nr)
    elif hm == 3:
        counts = "%d %d" % (nr, nc - 1)
    elif hm == 4:
        z = " ".join(reversed(z.split()))
    elif hm == 5:
        z = z.split()[0] + " " + repr(float(z.split()[1]) * 1.5 + 1)
    elif hm == 6:
        counts += " 1"
    lines = ["DSAA", counts, "%d %d" % (nxt() % 7, 7 + nxt() % 90), "-%d %d" % (nxt() % 50, 1 + nxt() % 50), z]
    wrap = nxt() % 16
    for i in range(nr):
        row = toks[i * nc:(i + 1) * nc]
        line = ""
        for j, t in enumerate(row):
            line += t + (SEPS[nxt() % len(SEPS)] if j < nc - 1 else "")
            if wrap == 1 and j == 0:
                line += "\n"
        lines.append(line)
    if wrap == 2:
        lines = lines[:-1]
    tail = ""
    if nxt() % 8 == 1:  # sometimes the bytes left over are appended raw
        tail = "".join(c19.ALPHABET[b % len(c19.ALPHABET)] for b in it)
    return "\n".join(lines) + "\n" + tail


def dump():
    with open(os.path.join(OUTDIR, "stats.json.tmp"), "w") as f:
        json.dump(STATS, f)
    os.replace(os.path.join(OUTDIR, "stats.json.tmp"), os.path.join(OUTDIR, "stats.json"))


def TestOneInput(data):  # noqa: N802
    text = decode(data)
    ctx = Ctx()
    STATS["executions"] += 1
    try:
        judged = c19.judge_raw(text, DTYPE, "stringio", ctx)
    except Violation as v:
        with open(os.path.join(OUTDIR, "violation.json"), "w") as f:
            json.dump(dict(case=dict(text=text, dtype=DTYPE, delivery="stringio"), message=str(v)), f)
        dump()
        os._exit(77)
    for lab in ctx.labels:
        STATS["labels"][lab] = STATS["labels"].get(lab, 0) + 1
    if judged and "loaded" in ctx.labels and len(STATS["loaded_hashes"]) < 20000:
        h = case_hash(text)
        if h not in STATS["loaded_hashes"][-200:]:
            STATS["loaded_hashes"].append(h)
            if len(STATS["samples"]) < 3:
                STATS["samples"].append(dict(text=text, dtype=DTYPE, delivery="stringio"))
    if STATS["executions"] % 500 == 0:
        dump()


def main():
    atheris.Setup([sys.argv[0]] + sys.argv[3:], TestOneInput)
    atheris.Fuzz()


if __name__ == "__main__":
    main()
