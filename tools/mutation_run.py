#!/venv/bin/python
"""Sensitivity validation: apply each mutants/*.patch to a scratch copy of /repo, (optionally) run the pinned suite there,
run the targeted property's check against the copy and record whether a VIOLATION was raised.  Writes mutants/RESULTS.md.

usage: mutation_run.py [--tier quick] [--pinned] [--only PATTERN] [--jobs N]"""
import argparse, glob, json, os, re, shutil, subprocess, sys, tempfile, time
from concurrent.futures import ThreadPoolExecutor

VERIF = os.path.dirname(os.path.dirname(os.path.abspath(__file__)))
REVERT = {"D1": "C01", "D2": "C12", "D4": "C11", "D5": "C10", "D6": "C17", "D7": "C20", "D8": "C04", "D11": "C14", "D14": "C03", "D15": "C14", "D16": "C20", "D17": "C04", "D18": "C07", "D19": "C13", "D20": "C17"}


def target(name):
    m = re.match(r"c(\d\d)_", name)
    if m:
        return "C" + m.group(1)
    m = re.match(r"revert_(D\d+)", name)
    return REVERT[m.group(1)]


def one(patch, tier, pinned):
    name = os.path.basename(patch)[:-6]
    check = target(name)
    tmp = tempfile.mkdtemp(prefix="verde_mut_")
    try:
        tree = os.path.join(tmp, "repo")
        subprocess.run(["rsync", "-a", "--exclude", ".git", "--exclude", "__pycache__", "/repo/", tree + "/"], check=True)
        if subprocess.run(["patch", "-p1", "-s", "-i", patch], cwd=tree, stdout=subprocess.DEVNULL).returncode:
            return (name, check, "patch-failed", "", "")
        pin = ""
        if pinned:
            p = subprocess.run(["/venv/bin/python", os.path.join(VERIF, "tools", "pinned_suite.py"), "--tree", tree], stdout=subprocess.PIPE, text=True,
                               env=dict(os.environ, OMP_NUM_THREADS="2"))
            pin = "pass" if "missing=0" in p.stdout else "FAILS pinned tests"
        env = dict(os.environ, VERIF_REPO=tree, VERIF_OUT=os.path.join(tmp, "out"), VERIF_WORKERS="8")
        p = subprocess.run([os.path.join(VERIF, "run_check.py"), check, "--tier", tier], env=env, stdout=subprocess.PIPE, stderr=subprocess.STDOUT, text=True)
        lines = [ln for ln in p.stdout.splitlines() if ln.startswith("[") or ln.startswith("regression replay fails")]
        verdict = "CAUGHT" if p.returncode == 1 and "VIOLATION" in p.stdout else ("harness-error" if p.returncode == 2 else "missed")
        return (name, check, verdict, pin, (lines[0][:160] if lines else "").replace("|", "/"))
    finally:
        shutil.rmtree(tmp, ignore_errors=True)


def main():
    ap = argparse.ArgumentParser()
    ap.add_argument("--tier", default="quick")
    ap.add_argument("--pinned", action="store_true")
    ap.add_argument("--only")
    ap.add_argument("--jobs", type=int, default=4)
    a = ap.parse_args()
    patches = sorted(glob.glob(os.path.join(VERIF, "mutants", "*.patch")))
    if a.only:
        patches = [p for p in patches if re.search(a.only, os.path.basename(p))]
    with ThreadPoolExecutor(a.jobs) as ex:
        rows = list(ex.map(lambda p: one(p, a.tier, a.pinned), patches))
    out = ["# Planted-mutant results (%s tier%s)\n" % (a.tier, ", pinned suite run on each mutant" if a.pinned else ""),
           "| mutant | check | verdict | pinned suite | first violation message |", "|---|---|---|---|---|"]
    for r in rows:
        out.append("| %s | %s | %s | %s | %s |" % r)
    caught = sum(1 for r in rows if r[2] == "CAUGHT")
    out.append("\n%d of %d mutants caught." % (caught, len(rows)))
    text = "\n".join(out) + "\n"
    if not a.only:
        open(os.path.join(VERIF, "mutants", "RESULTS.md"), "w").write(text)
    print(text)


main()
