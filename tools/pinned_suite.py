#!/venv/bin/python
"""Run the repository's pinned baseline test command on a tree and compare the
passing tests with /root/.vp/BASELINE.json (stable_pass).

usage: pinned_suite.py [--tree DIR] [--rev REV]
  --tree DIR : run in DIR (default /repo)
  --rev REV  : make a scratch worktree of /repo at REV under a mktemp dir,
               run there, remove it afterwards
Exit 0 when every stable_pass test passed.
"""
import argparse, json, os, subprocess, sys, tempfile, shutil
import xml.etree.ElementTree as ET


def run(tree):
    base = json.load(open("/root/.vp/BASELINE.json"))
    fd, junit = tempfile.mkstemp(suffix=".xml")
    os.close(fd)
    env = dict(os.environ)
    env.pop("FATIANDO_VERDE_VERIF", None)
    cmd = ["/venv/bin/python", "-m", "pytest", "-ra", "-q", "-p", "no:cacheprovider",
           "--timeout=900", "--continue-on-collection-errors", "--junitxml=" + junit]
    p = subprocess.run(cmd, cwd=tree, env=env, stdout=subprocess.PIPE, stderr=subprocess.STDOUT, text=True)
    passed = set()
    for tc in ET.parse(junit).getroot().iter("testcase"):
        if not any(c.tag in ("failure", "error", "skipped") for c in tc):
            passed.add(tc.get("classname") + "::" + tc.get("name"))
    os.unlink(junit)
    missing = sorted(set(base["stable_pass"]) - passed)
    print("tree=%s passed=%d stable_pass=%d missing=%d" % (tree, len(passed), len(base["stable_pass"]), len(missing)))
    for m in missing:
        print("  MISSING", m)
    if missing:
        print(p.stdout[-3000:])
    return 1 if missing else 0


def main():
    ap = argparse.ArgumentParser()
    ap.add_argument("--tree", default="/repo")
    ap.add_argument("--rev")
    a = ap.parse_args()
    if a.rev:
        tmp = tempfile.mkdtemp(prefix="verde_wt_")
        wt = os.path.join(tmp, "wt")
        subprocess.run(["git", "-C", "/repo", "worktree", "add", "--detach", "-q", wt, a.rev], check=True)
        try:
            # generated version file is not tracked
            src = "/repo/verde/_version_generated.py"
            if os.path.exists(src) and not os.path.exists(os.path.join(wt, "verde/_version_generated.py")):
                shutil.copy(src, os.path.join(wt, "verde/_version_generated.py"))
            rc = run(wt)
        finally:
            subprocess.run(["git", "-C", "/repo", "worktree", "remove", "--force", wt])
            shutil.rmtree(tmp, ignore_errors=True)
        sys.exit(rc)
    sys.exit(run(a.tree))


main()
