#!/venv/bin/python
"""Writes MANIFEST.json from the table below (one entry per claimed property)."""
import json, os, subprocess, sys

VERIF = os.path.dirname(os.path.dirname(os.path.abspath(__file__)))
sys.path.insert(0, VERIF)
sys.path.insert(0, os.path.join(VERIF, ".deps"))
import importlib  # noqa: E402
from tools.manifest_table import CHECKS, NOT_APPLICABLE  # noqa: E402


def subchecks(pid):
    """the sub-checks as registered in the code, so that the text cannot fall behind the checks"""
    mod = importlib.import_module("checks.c%s" % pid[1:])
    return " Sub-checks registered in checks/c%s.py: " % pid[1:] + "; ".join("%s (%s)" % (s.name, s.doc) for s in mod.SUBCHECKS) + "."


ids = [json.loads(l)["id"] for l in open(os.path.join(VERIF, "properties.jsonl"))]
checks = []
for pid in ids:
    if pid not in CHECKS:
        continue
    c = CHECKS[pid]
    checks.append(dict(
        property_id=pid,
        quick_cmd="./run_check.py %s --tier quick" % pid,
        thorough_cmd="./run_check.py %s --tier thorough" % pid,
        evidence_file="evidence/%s.json" % pid,
        replay_cmd_template="./run_check.py %s --replay {path}" % pid,
        engine="hypothesis-runner",
        level_claimed=dict(category="exploration", text=c["text"] + subchecks(pid), design_ref=c["design_ref"]),
        level_note=c["note"],
        technique=c["technique"],
    ))
na = [dict(property_id=p, reason=NOT_APPLICABLE.get(p, "check not built yet (work in progress)")) for p in ids if p not in CHECKS]
fix_commits = subprocess.run(["git", "-C", "/repo", "log", "--format=%h %s", "--grep=^fix:"], capture_output=True, text=True).stdout.strip().splitlines()
manifest = dict(
    version=1,
    setup_cmd="sh setup.sh",
    hooks=dict(
        guard="FATIANDO_VERDE_VERIF",
        enable="no hook or instrumentation commit exists: verde is pure Python and is imported straight from /repo's working tree "
               "(vlib/env.py puts /repo first on sys.path and refuses to run if verde comes from elsewhere); every observation point is public API. "
               "The runner sets FATIANDO_VERDE_VERIF=1 for uniformity but nothing in /repo reads it.",
        baseline_off_cmd="cd /repo && env -u FATIANDO_VERDE_VERIF /venv/bin/python -m pytest -ra -q -p no:cacheprovider --timeout=900 --continue-on-collection-errors",
        source_commits=[],
        add_only=True,
    ),
    engines=[dict(name="hypothesis-runner", path="run_check.py", serves_properties=[c["property_id"] for c in checks],
                  kind_free_text="Hypothesis 6.168 generated search (seeded, sharded over 16 processes), exhaustive enumeration of small finite lattices, "
                                 "a rule-based state machine for call histories, atheris byte-level fuzzing for the Surfer parser; explicit oracles per property")],
    checks=checks,
    notes="Unguarded 'fix:' commits in /repo (genuine defects found by these checks, see known_findings.json and DESIGN.md 3.2): " + "; ".join(fix_commits),
    not_applicable=na,
)
json.dump(manifest, open(os.path.join(VERIF, "MANIFEST.json"), "w"), indent=1)
print("MANIFEST.json: %d checks, %d not claimed" % (len(checks), len(na)))
