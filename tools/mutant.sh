#!/bin/sh
# usage: tools/mutant.sh <patch-file> <check-id> [<check-id> ...]   (env TIER=quick|thorough, PINNED=1 to also run the pinned suite)
# Applies the patch to a scratch copy of /repo (never to /repo itself), runs the
# given checks against the copy with evidence/replays redirected to a scratch
# directory, prints one line per check and removes everything afterwards.
PATCH=$(readlink -f "$1"); shift
TMP=$(mktemp -d /tmp/verde_mut_XXXXXX)
trap 'rm -rf "$TMP"' EXIT
rsync -a --exclude .git --exclude __pycache__ /repo/ "$TMP/repo/"
if ! (cd "$TMP/repo" && patch -p1 -s < "$PATCH"); then echo "PATCH-FAILED $PATCH"; exit 3; fi
if [ -n "$PINNED" ]; then
  /venv/bin/python "$(dirname "$0")/pinned_suite.py" --tree "$TMP/repo" | head -5
fi
for ID in "$@"; do
  OUTF="$TMP/out_$ID.log"
  VERIF_REPO="$TMP/repo" VERIF_OUT="$TMP/out" "$(dirname "$0")/../run_check.py" "$ID" --tier "${TIER:-quick}" > "$OUTF" 2>&1
  RC=$?
  echo "mutant=$(basename "$PATCH") check=$ID exit=$RC $(grep -c '^VIOLATION' "$OUTF") violation line(s)"
  grep -E "^\[|^VIOLATION|HARNESS-ERROR" "$OUTF" | cut -c1-300 | head -${SHOW:-6}
done
