#!/venv/bin/python
"""Systematic (operator-level) mutation campaign, complementing the hand-written mutants and the seeded changes.

For a random sample of AST-level mutation sites in verde's sources (comparison / arithmetic / boolean operators, small
constants, min<->max style name swaps) it: copies /repo to a scratch directory, applies the one-token mutation, checks that
verde still imports, runs the *pinned* tests of the matching test module(s), and - for the mutants that the pinned tests let
through - runs the quick check(s) of the properties that the mutated function is anchored in.  Writes
mutants/AUTO_RESULTS.md (+ .json).  Survivors (pinned tests pass, checks pass) are listed for manual triage: equivalent
mutant, outside every listed property, or a gap to close.

usage: auto_mutate.py [--n 300] [--seed 1] [--jobs 4] [--files coordinates.py,utils.py] [--resume]
"""
import argparse
import ast
import json
import os
import random
import re
import shutil
import subprocess
import sys
import tempfile
from concurrent.futures import ThreadPoolExecutor

VERIF = os.path.dirname(os.path.dirname(os.path.abspath(__file__)))
REPO = "/repo"
FILES = ["verde/coordinates.py", "verde/utils.py", "verde/base/utils.py", "verde/base/least_squares.py", "verde/base/base_classes.py", "verde/spline.py",
         "verde/vector.py", "verde/trend.py", "verde/neighbors.py", "verde/distances.py", "verde/mask.py", "verde/projections.py", "verde/scipygridder.py",
         "verde/chain.py", "verde/blockreduce.py", "verde/model_selection.py", "verde/io.py", "verde/synthetic.py"]

FUNC_CHECKS = {
    "verde/coordinates.py": {"check_region": ["C13"], "get_region": ["C13"], "pad_region": ["C13"], "scatter_points": ["C13"], "line_coordinates": ["C07"],
                             "grid_coordinates": ["C07"], "spacing_to_size": ["C07"], "shape_to_spacing": ["C07"], "profile_coordinates": ["C07", "C05"],
                             "inside": ["C13"], "block_split": ["C08"], "rolling_window": ["C14"], "_check_rolling_window_overlap": ["C14"],
                             "expanding_window": ["C14"], "longitude_continuity": ["C17"], "_check_geographic_coordinates": ["C17"], "_check_geographic_region": ["C17"]},
    "verde/utils.py": {"variance_to_weights": ["C10"], "maxabs": ["C13"], "make_xarray_grid": ["C18", "C05"], "meshgrid_to_1d": ["C18"], "meshgrid_from_1d": ["C18", "C05"],
                       "get_ndim_horizontal_coords": ["C18"], "check_meshgrid": ["C18"], "grid_to_table": ["C18", "C16"], "kdtree": ["C15", "C08"],
                       "partition_by_sum": ["C11"], "dispatch": ["C12"], "parse_engine": ["C03"], "dummy_jit": ["C03"]},
    "verde/base/utils.py": {"score_estimator": ["C12"], "DummyEstimator": ["C12"], "check_data": ["C20", "C06"], "check_data_names": ["C05", "C18"], "check_coordinates": ["C20"],
                            "check_extra_coords_names": ["C18"], "check_fit_input": ["C20", "C02"], "n_1d_arrays": ["C04", "C03"]},
    "verde/base/least_squares.py": {"*": ["C02", "C01"]},
    "verde/base/base_classes.py": {"BaseBlockCrossValidator": ["C11"], "filter": ["C06"], "score": ["C12"], "grid": ["C05"], "scatter": ["C05"], "profile": ["C05"],
                                   "_get_dims": ["C05"], "_get_extra_coords_names": ["C05"], "_get_data_names": ["C05"], "project_coordinates": ["C05"],
                                   "get_instance_region": ["C05"], "split": ["C11"], "get_n_splits": ["C11"], "*": ["C05"]},
    "verde/spline.py": {"SplineCV": ["C12", "C20"], "fit": ["C02", "C01"], "predict": ["C03"], "jacobian": ["C03"], "greens_func_numpy": ["C03"], "predict_numpy": ["C03"],
                        "jacobian_numpy": ["C03"], "*": ["C03", "C12"]},
    "verde/vector.py": {"Vector": ["C06"], "fit": ["C02", "C06"], "predict": ["C03", "C06"], "jacobian": ["C03"], "greens_func_2d": ["C03"], "predict_2d_numpy": ["C03"],
                        "jacobian_2d_numpy": ["C03"], "*": ["C03", "C06"]},
    "verde/trend.py": {"fit": ["C02", "C01"], "*": ["C03"]},
    "verde/neighbors.py": {"*": ["C15", "C01"]},
    "verde/distances.py": {"*": ["C15"]},
    "verde/mask.py": {"distance_mask": ["C15"], "convexhull_mask": ["C16"], "_get_grid_coordinates": ["C15", "C16"]},
    "verde/projections.py": {"project_region": ["C13"], "project_grid": ["C16"]},
    "verde/scipygridder.py": {"*": ["C03", "C01"]},
    "verde/chain.py": {"*": ["C06"]},
    "verde/blockreduce.py": {"BlockMean": ["C10"], "*": ["C09", "C10"]},
    "verde/model_selection.py": {"BlockShuffleSplit": ["C11"], "BlockKFold": ["C11"], "train_test_split": ["C12"], "cross_val_score": ["C12"], "fit_score": ["C12"], "select": ["C12"]},
    "verde/io.py": {"*": ["C19"]},
    "verde/synthetic.py": {"*": ["C03", "C05"]},
}
TESTS = {"coordinates": ["test_coordinates.py"], "utils": ["test_utils.py", "test_blockreduce.py", "test_model_selection.py"], "base/utils": ["test_base.py"],
         "base/least_squares": ["test_base.py", "test_trend.py", "test_spline.py"], "base/base_classes": ["test_base.py"], "spline": ["test_spline.py"],
         "vector": ["test_vector.py"], "trend": ["test_trend.py"], "neighbors": ["test_neighbors.py"], "distances": ["test_distances.py"], "mask": ["test_mask.py"],
         "projections": ["test_projections.py"], "scipygridder": ["test_scipy.py"], "chain": ["test_chain.py"], "blockreduce": ["test_blockreduce.py"],
         "model_selection": ["test_model_selection.py"], "io": ["test_io.py"], "synthetic": ["test_synthetic.py"]}

CMP = {ast.Lt: "<", ast.LtE: "<=", ast.Gt: ">", ast.GtE: ">=", ast.Eq: "==", ast.NotEq: "!="}
CMP_SWAP = {"<": "<=", "<=": "<", ">": ">=", ">=": ">", "==": "!=", "!=": "=="}
BIN = {ast.Add: "+", ast.Sub: "-", ast.Mult: "*", ast.Div: "/", ast.FloorDiv: "//", ast.Mod: "%", ast.Pow: "**"}
BIN_SWAP = {"+": "-", "-": "+", "*": "/", "/": "*", "//": "/", "%": "//", "**": "*"}
NAME_SWAP = {"min": "max", "max": "min", "argmin": "argmax", "argmax": "argmin", "nanmin": "nanmax", "nanmax": "nanmin", "floor": "ceil", "ceil": "floor",
             "cos": "sin", "sin": "cos", "any": "all", "all": "any", "cumsum": "cumprod", "mean": "median", "zeros": "ones", "ones": "zeros", "ones_like": "zeros_like",
             "zeros_like": "ones_like", "logical_and": "logical_or", "greater_equal": "greater", "less_equal": "less", "unique": "sort", "sqrt": "abs", "hypot": "maximum",
             "isin": "equal" , "ravel": "ravel", "transpose": "array", "column_stack": "vstack", "searchsorted": "searchsorted"}


def sites(path):
    src = open(os.path.join(REPO, path)).read()
    lines = src.split("\n")
    tree = ast.parse(src)
    out = []
    doc_lines = set()
    for node in ast.walk(tree):
        if isinstance(node, (ast.FunctionDef, ast.ClassDef, ast.Module)) and node.body and isinstance(node.body[0], ast.Expr) and isinstance(getattr(node.body[0], "value", None), ast.Constant) \
                and isinstance(node.body[0].value.value, str):
            doc_lines.update(range(node.body[0].lineno, node.body[0].end_lineno + 1))
    # enclosing function / class names
    owner = {}

    def walk(node, stack):
        for child in ast.iter_child_nodes(node):
            st = stack
            if isinstance(child, (ast.FunctionDef, ast.ClassDef)):
                st = stack + [child.name]
            owner[id(child)] = st
            walk(child, st)
    walk(tree, [])

    def between(a, b):
        """source text between the end of node a and the start of node b (same line only)"""
        if a.end_lineno != b.lineno:
            return None
        return lines[a.end_lineno - 1][a.end_col_offset:b.col_offset], a.end_lineno, a.end_col_offset

    skip_owner = ("predict_numba", "jacobian_numba", "greens_func_jit", "predict_2d_numba", "jacobian_2d_numba", "test", "locate", "fetch", "setup")
    for node in ast.walk(tree):
        st = owner.get(id(node), [])
        if any(s.startswith(skip_owner) for s in st) or getattr(node, "lineno", None) in doc_lines:
            continue
        if isinstance(node, ast.Compare) and len(node.ops) == 1 and type(node.ops[0]) in CMP:
            seg = between(node.left, node.comparators[0])
            op = CMP[type(node.ops[0])]
            if seg and op in seg[0]:
                col = seg[2] + seg[0].index(op)
                out.append(dict(file=path, line=seg[1], col=col, old=op, new=CMP_SWAP[op], kind="compare", owner=st))
        elif isinstance(node, ast.BinOp) and type(node.op) in BIN:
            seg = between(node.left, node.right)
            op = BIN[type(node.op)]
            if seg and op in seg[0] and not isinstance(node.left, ast.Constant) or (seg and op in seg[0] and not isinstance(getattr(node.left, "value", None), str)):
                if isinstance(node.left, ast.Constant) and isinstance(node.left.value, str):
                    continue
                col = seg[2] + seg[0].index(op)
                out.append(dict(file=path, line=seg[1], col=col, old=op, new=BIN_SWAP[op], kind="arith", owner=st))
        elif isinstance(node, ast.BoolOp):
            for a, b in zip(node.values[:-1], node.values[1:]):
                seg = between(a, b)
                op = "and" if isinstance(node.op, ast.And) else "or"
                if seg and (" %s " % op) in seg[0]:
                    col = seg[2] + seg[0].index(op)
                    out.append(dict(file=path, line=seg[1], col=col, old=op, new="or" if op == "and" else "and", kind="bool", owner=st))
        elif isinstance(node, ast.UnaryOp) and isinstance(node.op, ast.Not):
            text = lines[node.lineno - 1][node.col_offset:node.col_offset + 4]
            if text == "not ":
                out.append(dict(file=path, line=node.lineno, col=node.col_offset, old="not ", new="", kind="not", owner=st))
        elif isinstance(node, ast.Constant) and type(node.value) in (int, float) and node.lineno == node.end_lineno:
            text = lines[node.lineno - 1][node.col_offset:node.end_col_offset]
            v = node.value
            if isinstance(v, int) and abs(v) <= 10 and text == str(v):
                for new in ({0: [1], 1: [0, 2], 2: [1, 3]}.get(v, [v + 1, v - 1])):
                    out.append(dict(file=path, line=node.lineno, col=node.col_offset, old=text, new=str(new), kind="const", owner=st))
            elif isinstance(v, float) and text.replace(".", "").replace("e", "").replace("-", "").isdigit():
                out.append(dict(file=path, line=node.lineno, col=node.col_offset, old=text, new=repr(v * 2 if v else 1.0), kind="const", owner=st))
        elif isinstance(node, ast.Constant) and isinstance(node.value, bool) and node.lineno == node.end_lineno:
            text = lines[node.lineno - 1][node.col_offset:node.end_col_offset]
            if text in ("True", "False"):
                out.append(dict(file=path, line=node.lineno, col=node.col_offset, old=text, new="False" if text == "True" else "True", kind="bool_const", owner=st))
        elif isinstance(node, ast.Attribute) and node.attr in NAME_SWAP and NAME_SWAP[node.attr] != node.attr and node.lineno == node.end_lineno:
            col = node.end_col_offset - len(node.attr)
            if lines[node.lineno - 1][col:node.end_col_offset] == node.attr:
                out.append(dict(file=path, line=node.lineno, col=col, old=node.attr, new=NAME_SWAP[node.attr], kind="name", owner=st))
    # drop sites in warning / error message construction lines
    keep = []
    for s in out:
        text = lines[s["line"] - 1]
        if "warn" in text or "raise " in text or ".format(" in text or text.strip().startswith(("\"", "'", "+ \"", "f\"")):
            continue
        s["text"] = text.strip()[:120]
        keep.append(s)
    return keep


def checks_for(site):
    table = FUNC_CHECKS.get(site["file"], {})
    found = table.get("*", [])
    for name in site["owner"]:  # outermost first: a class entry wins over a method entry
        if name in table:
            found = table[name]
            break
    extra = []
    if site["owner"] and site["owner"][-1] in ("predict", "jacobian", "fit", "predict_numpy", "jacobian_numpy", "predict_2d_numpy", "jacobian_2d_numpy") and "C04" not in found:
        extra = ["C04"]  # layouts, dtypes and ignored extra coordinates of every gridder
    return list(found) + extra


def pinned_ids():
    return set(json.load(open("/root/.vp/BASELINE.json"))["stable_pass"])


ALL_CHECKS = ["C%02d" % i for i in range(1, 21)]


def run_one(args):
    idx, site, pinned = args
    tmp = tempfile.mkdtemp(prefix="verde_auto_")
    tree = os.path.join(tmp, "repo")
    res = dict(site, idx=idx)
    try:
        subprocess.run(["rsync", "-a", "--exclude", ".git", "--exclude", "__pycache__", "--exclude", "doc", "--exclude", "data", REPO + "/", tree + "/"], check=True)
        p = os.path.join(tree, site["file"])
        lines = open(p).read().split("\n")
        ln = lines[site["line"] - 1]
        assert ln[site["col"]:site["col"] + len(site["old"])] == site["old"], (ln, site)
        lines[site["line"] - 1] = ln[:site["col"]] + site["new"] + ln[site["col"] + len(site["old"]):]
        open(p, "w").write("\n".join(lines))
        env = dict(os.environ, OMP_NUM_THREADS="1", PYTHONPATH=tree, PYTHONWARNINGS="ignore")
        imp = subprocess.run(["/venv/bin/python", "-c", "import verde"], cwd=tree, env=env, capture_output=True, text=True)
        if imp.returncode:
            res["verdict"] = "does-not-import"
            return res
        key = site["file"][len("verde/"):-3]
        tests = [os.path.join("verde/tests", t) for t in TESTS.get(key, [])]
        junit = os.path.join(tmp, "j.xml")
        subprocess.run(["/venv/bin/python", "-m", "pytest", "-q", "-p", "no:cacheprovider", "--timeout=300", "-x", "--junitxml=" + junit] + tests, cwd=tree, env=env,
                       capture_output=True, text=True)
        killed = []
        if os.path.exists(junit):
            import xml.etree.ElementTree as ET

            for tc in ET.parse(junit).getroot().iter("testcase"):
                tid = tc.get("classname") + "::" + tc.get("name")
                if tid in pinned and any(c.tag in ("failure", "error") for c in tc):
                    killed.append(tid)
        if killed:
            res["verdict"] = "killed-by-pinned-tests"
            res["pinned_failed"] = killed[:3]
            return res
        checks = checks_for(site)
        if site.get("stage2"):
            checks = checks + [c for c in ALL_CHECKS if c not in checks]
        res["checks"] = checks
        caught = []
        for c in checks:
            env2 = dict(os.environ, VERIF_REPO=tree, VERIF_OUT=os.path.join(tmp, "out"), **({} if site.get("stage2") or site.get("redo") else {"VERIF_WORKERS": "8"}))
            r = subprocess.run([os.path.join(VERIF, "run_check.py"), c, "--tier", "quick"], env=env2, capture_output=True, text=True)
            if r.returncode == 1 and "VIOLATION" in r.stdout:
                first = [ln_ for ln_ in r.stdout.splitlines() if ln_.startswith("[") or ln_.startswith("regression")]
                caught.append(c)
                res["first"] = (first[0][:200] if first else "")
                break
            if r.returncode == 2:
                res.setdefault("harness", []).append(c + ": " + "\n".join(ln_ for ln_ in r.stdout.splitlines() if "HARNESS" in ln_)[:300])
        res["verdict"] = "CAUGHT" if caught else ("harness-error" if res.get("harness") else "survived")
        res["caught_by"] = caught
        return res
    except Exception as e:  # noqa: BLE001
        res["verdict"] = "tool-error: %s" % e
        return res
    finally:
        shutil.rmtree(tmp, ignore_errors=True)


def main():
    ap = argparse.ArgumentParser()
    ap.add_argument("--n", type=int, default=300)
    ap.add_argument("--seed", type=int, default=1)
    ap.add_argument("--jobs", type=int, default=4)
    ap.add_argument("--files")
    ap.add_argument("--list", action="store_true")
    ap.add_argument("--redo", help="JSON results of an earlier pass: re-run what it left undecided, against the mapped checks in the registered configuration")
    ap.add_argument("--stage2", help="JSON results of a first pass: re-run its survivors against all 20 quick checks in the registered configuration")
    ap.add_argument("--out", default=os.path.join(VERIF, "mutants", "AUTO_RESULTS"))
    a = ap.parse_args()
    files = FILES if not a.files else [f for f in FILES if any(f.endswith(x) for x in a.files.split(","))]
    allsites = []
    for f in files:
        allsites.extend(sites(f))
    if a.list:
        import collections
        for f in files:
            print(f, dict(collections.Counter(x["kind"] for x in allsites if x["file"] == f)))
        print(len(allsites))
        return
    rng = random.Random(a.seed)
    rng.shuffle(allsites)
    chosen = allsites[: a.n]
    if a.stage2:
        chosen = [dict({k: r[k] for k in ("file", "line", "col", "old", "new", "kind", "owner", "text")}, stage2=True) for r in json.load(open(a.stage2))
                  if r["verdict"] in ("survived", "harness-error")]
    if a.redo:
        # entries of an earlier pass that were not decided (survived, harness or tool errors), re-located in the current sources by their text
        want = [r for r in json.load(open(a.redo)) if not (r["verdict"] in ("CAUGHT", "killed-by-pinned-tests", "does-not-import"))]
        chosen = []
        for r in want:
            hits = [s for s in allsites if (s["file"], s["text"], s["col"], s["old"], s["new"], s["kind"]) == (r["file"], r["text"], r["col"], r["old"], r["new"], r["kind"])]
            if hits:
                chosen.append(dict(min(hits, key=lambda s: abs(s["line"] - r["line"])), redo=True))
            else:
                print("not found any more:", r["file"], r["line"], r["text"])
    pinned = pinned_ids()
    print("sites: %d, sampled: %d" % (len(allsites), len(chosen)), flush=True)
    results = []
    with ThreadPoolExecutor(a.jobs) as ex:
        for r in ex.map(run_one, [(i, s, pinned) for i, s in enumerate(chosen)]):
            results.append(r)
            print("%4d %-22s %s:%d %s->%s [%s] %s" % (r["idx"], r["verdict"], r["file"], r["line"], r["old"], r["new"], "/".join(r["owner"]), r.get("first", "")[:80]), flush=True)
            json.dump(results, open(a.out + ".json", "w"), indent=1)
    counts = {}
    for r in results:
        counts[r["verdict"]] = counts.get(r["verdict"], 0) + 1
    md = ["# Operator-level mutation campaign (quick tier, seed %d, %d of %d sites)\n" % (a.seed, len(chosen), len(allsites)), "counts: %r\n" % counts,
          "| # | verdict | site | mutation | function | checks | detail |", "|---|---|---|---|---|---|---|"]
    for r in sorted(results, key=lambda r: (r["verdict"] != "survived", r["file"], r["line"])):
        md.append("| %d | %s | %s:%d | `%s` -> `%s` in `%s` | %s | %s | %s |" % (r["idx"], r["verdict"], r["file"], r["line"], r["old"], r["new"], r.get("text", "").replace("|", "/"),
                                                                          "/".join(r["owner"]), ",".join(r.get("checks", [])), r.get("first", "").replace("|", "/")[:120]))
    open(a.out + ".md", "w").write("\n".join(md) + "\n")
    print(counts)


if __name__ == "__main__":
    main()
