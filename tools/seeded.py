#!/venv/bin/python
"""Seeded-change bookkeeping (changes to fatiando/verde written by independent
sub-agents that break one property while passing the pinned suite).

  seeded.py ingest NAME PROPERTY PATCH DEMO [NOTES]   confirm and store under seeded/NAME/
  seeded.py run NAME [--tier quick|thorough] [--checks C01,C02]   run checks against the change
  seeded.py all [--tier quick]                         run every stored change against its property's check
  seeded.py table                                      print the detection table from the meta.json files

Everything happens on scratch copies of /repo under a mktemp directory that is
removed afterwards; /repo itself is never touched."""
import argparse
import json
import os
import shutil
import subprocess
import sys
import tempfile
import time

VERIF = os.path.dirname(os.path.dirname(os.path.abspath(__file__)))
SEEDED = os.path.join(VERIF, "seeded")


def scratch_copy():
    tmp = tempfile.mkdtemp(prefix="verde_seed_")
    subprocess.run(["rsync", "-a", "--exclude", ".git", "--exclude", "__pycache__", "/repo/", os.path.join(tmp, "repo") + "/"], check=True)
    return tmp


def apply_patch(tree, patch):
    return subprocess.run(["patch", "-p1", "-s", "-i", os.path.abspath(patch)], cwd=tree).returncode == 0


def run_demo(tree, demo):
    env = dict(os.environ, PYTHONPATH=tree, OMP_NUM_THREADS="2", PYTHONWARNINGS="ignore")
    p = subprocess.run(["/venv/bin/python", os.path.abspath(demo)], cwd=tree, env=env, stdout=subprocess.PIPE, stderr=subprocess.STDOUT, text=True, timeout=900)
    return p.returncode, p.stdout[-800:]


def run_check(tree, check, tier, out):
    env = dict(os.environ, VERIF_REPO=tree, VERIF_OUT=out)
    t0 = time.time()
    p = subprocess.run([os.path.join(VERIF, "run_check.py"), check, "--tier", tier], env=env, stdout=subprocess.PIPE, stderr=subprocess.STDOUT, text=True, timeout=7200)
    lines = [ln for ln in p.stdout.splitlines() if ln.startswith("[") or ln.startswith("VIOLATION") or "HARNESS-ERROR" in ln]
    return dict(check=check, tier=tier, exit=p.returncode, violation_lines=sum(1 for ln in lines if ln.startswith("VIOLATION")),
                first=(lines[0][:400] if lines else ""), wall_s=round(time.time() - t0, 1))


def ingest(a):
    dest = os.path.join(SEEDED, a.name)
    tmp = scratch_copy()
    tree = os.path.join(tmp, "repo")
    meta = dict(name=a.name, property=a.property, ran=[])
    try:
        rc0, out0 = run_demo(tree, a.demo)
        meta["demo_on_original"] = dict(exit=rc0, tail=out0[-300:])
        if not apply_patch(tree, a.patch):
            print("PATCH DOES NOT APPLY")
            return 1
        pin = subprocess.run(["/venv/bin/python", os.path.join(VERIF, "tools", "pinned_suite.py"), "--tree", tree], stdout=subprocess.PIPE, text=True,
                             env=dict(os.environ, OMP_NUM_THREADS="4"))
        meta["pinned_suite"] = pin.stdout.strip().splitlines()[0] if pin.stdout.strip() else "no output"
        rc1, out1 = run_demo(tree, a.demo)
        meta["demo_with_change"] = dict(exit=rc1, tail=out1[-300:])
        ok = rc0 == 0 and rc1 != 0 and "missing=0" in meta["pinned_suite"]
        meta["confirmed"] = ok
        print(json.dumps(meta, indent=1))
        if not ok:
            print("NOT CONFIRMED - not stored")
            return 1
        res = run_check(tree, a.property, "quick", os.path.join(tmp, "out"))
        meta["ran"].append(res)
        print(res)
        os.makedirs(dest, exist_ok=True)
        shutil.copy(a.patch, os.path.join(dest, "patch.diff"))
        shutil.copy(a.demo, os.path.join(dest, "demo.py"))
        if a.notes and os.path.exists(a.notes):
            shutil.copy(a.notes, os.path.join(dest, "notes.md"))
            meta["needs"] = open(a.notes).read()[:1500]
        meta["what_was_run"] = ("demo.py on an unmodified scratch copy of /repo (exit 0) and on the copy with patch.diff applied (exit != 0); tools/pinned_suite.py on the "
                                "patched copy (all 138 pinned tests pass); then ./run_check.py %s against the patched copy" % a.property)
        json.dump(meta, open(os.path.join(dest, "meta.json"), "w"), indent=1)
        return 0
    finally:
        shutil.rmtree(tmp, ignore_errors=True)


def rerun(name, tier, checks):
    dest = os.path.join(SEEDED, name)
    meta = json.load(open(os.path.join(dest, "meta.json")))
    tmp = scratch_copy()
    tree = os.path.join(tmp, "repo")
    try:
        if not apply_patch(tree, os.path.join(dest, "patch.diff")):
            print(name, "PATCH DOES NOT APPLY (repository changed?)")
            return
        for c in checks or [meta["property"]]:
            res = run_check(tree, c, tier, os.path.join(tmp, "out"))
            meta["ran"] = [r for r in meta["ran"] if not (r["check"] == c and r["tier"] == tier)] + [res]
            print(name, res)
        json.dump(meta, open(os.path.join(dest, "meta.json"), "w"), indent=1)
    finally:
        shutil.rmtree(tmp, ignore_errors=True)


def table():
    rows = []
    for name in sorted(os.listdir(SEEDED)):
        mp = os.path.join(SEEDED, name, "meta.json")
        if not os.path.exists(mp):
            continue
        m = json.load(open(mp))
        for r in m["ran"]:
            rows.append((name, m["property"], r["check"], r["tier"], "CAUGHT" if r["exit"] == 1 and r["violation_lines"] else ("harness-error" if r["exit"] == 2 else "missed"), r["first"][:110]))
    for r in rows:
        print("| %s | %s | %s | %s | %s | %s |" % r)


def main():
    ap = argparse.ArgumentParser()
    sub = ap.add_subparsers(dest="cmd")
    p = sub.add_parser("ingest")
    p.add_argument("name"), p.add_argument("property"), p.add_argument("patch"), p.add_argument("demo"), p.add_argument("notes", nargs="?")
    p = sub.add_parser("run")
    p.add_argument("name"), p.add_argument("--tier", default="quick"), p.add_argument("--checks")
    p = sub.add_parser("all")
    p.add_argument("--tier", default="quick")
    p.add_argument("--part", default="0/1", help="i/n: only every n-th change, starting with the i-th (to run several of these side by side)")
    p.add_argument("--skip", default="", help="comma-separated names to leave out")
    p.add_argument("--only", default="", help="regular expression: only changes whose name matches")
    sub.add_parser("table")
    a = ap.parse_args()
    if a.cmd == "ingest":
        sys.exit(ingest(a))
    if a.cmd == "run":
        rerun(a.name, a.tier, a.checks.split(",") if a.checks else None)
    elif a.cmd == "all":
        i, n = (int(v) for v in a.part.split("/"))
        import re

        names = [name for name in sorted(os.listdir(SEEDED)) if os.path.exists(os.path.join(SEEDED, name, "meta.json")) and name not in a.skip.split(",") and re.search(a.only, name)]
        for name in names[i::n]:
            rerun(name, a.tier, None)
    elif a.cmd == "table":
        table()


main()
