#!/opt/veriftools/pyvenv/bin/python
"""Validate MANIFEST.json and every evidence file against the schemas (uses the tooling venv's jsonschema)."""
import glob, json, sys, os
import jsonschema
V = os.path.dirname(os.path.dirname(os.path.abspath(__file__)))
ok = True
try:
    jsonschema.validate(json.load(open(V + "/MANIFEST.json")), json.load(open("/root/.vp/MANIFEST.schema.json")))
    print("MANIFEST.json valid")
except Exception as e:
    ok = False; print("MANIFEST.json INVALID:", str(e)[:500])
es = json.load(open("/root/.vp/EVIDENCE.schema.json"))
for f in sorted(glob.glob(V + "/evidence/*.json")):
    try:
        jsonschema.validate(json.load(open(f)), es)
    except Exception as e:
        ok = False; print(f, "INVALID:", str(e)[:500])
print("evidence files checked:", len(glob.glob(V + "/evidence/*.json")))
sys.exit(0 if ok else 1)
