"""Per-property manifest texts (level, trusted base, deciding technique)."""
CHECKS = {
    "C07": dict(
        text="Generated-input search with an exact oracle: every node returned by line_coordinates/grid_coordinates/profile_coordinates is compared "
             "with nodes computed in rational arithmetic from the float inputs (8 eps tolerance), over an exhaustively enumerated rational lattice of "
             "(start, extent, spacing) x adjust x registration and Hypothesis-generated float regions, spacings, shapes, layouts and rejections. "
             "Exploration, not proof: it bounds node counts to ~200 per direction.",
        design_ref="DESIGN.md 5 (C07)",
        note="Trusts Python fractions/numpy comparison; spacings positive, shapes >= 1; .5 ties within 1e-9 accept both roundings.",
        technique="property-based testing (Hypothesis) + exhaustive lattice enumeration against an exact rational model",
    ),
    "C13": dict(
        text="Generated-input search against closed-form oracles: get_region vs min/max, inside vs the closed-box predicate element by element "
             "(points exactly on and one ulp around the bounds, any array shape/order), nodes of scatter_points/grid_coordinates inside the region, "
             "pad_region arithmetic and undo, project_region vs the exact bounding box for projections whose extrema fall on its sampling nodes, "
             "maxabs vs a NaN-aware reference, and rejection of invalid regions by every validating public function.",
        design_ref="DESIGN.md 5 (C13)",
        note="Finite float inputs; pad undo exact on dyadic values, 2 ulp otherwise; project_region only judged for projection families with a known exact bounding box.",
        technique="property-based testing (Hypothesis) against closed-form reference predicates",
    ),
    "C17": dict(
        text="Exhaustive enumeration of the (W, E) lattice (5 degrees, refined to 1 degree around the seams in the thorough tier) with probe longitudes "
             "on the same lattice, plus generated off-lattice arcs and invalid inputs, judged by exact modular arithmetic on rationals: W'<=E', bounds "
             "congruent mod 360, width preserved, latitudes untouched, longitudes congruent and in the returned convention, and verde.inside on the "
             "returned pair true exactly for longitudes angularly within the original arc.",
        design_ref="DESIGN.md 5 (C17)",
        note="Arcs representable in neither convention and arcs within 0.01 degree of (but not equal to) a full circle are counted, not asserted; off-lattice tolerance 1e-9 degree.",
        technique="exhaustive lattice enumeration + property-based testing (Hypothesis) against an exact rational model",
    ),
}
NOT_APPLICABLE = {}
