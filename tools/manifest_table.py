"""Per-property manifest texts (level, trusted base, deciding technique)."""
CHECKS = {
    "C07": dict(
        text="Generated-input search with an exact oracle: every node returned by line_coordinates/grid_coordinates/profile_coordinates is compared "
             "with nodes computed in rational arithmetic from the float inputs (8 eps tolerance), over an exhaustively enumerated rational lattice of "
             "(start, extent, spacing) x adjust x registration and Hypothesis-generated float regions, spacings, shapes, layouts and rejections. "
             "Exploration, not proof: it bounds node counts to ~200 per direction.",
        design_ref="DESIGN.md 5 (C07)",
        note="Trusts Python fractions/numpy comparison; spacings positive, shapes >= 1; .5 ties within 1e-9 accept both roundings.",
        technique="property-based testing (Hypothesis) + exhaustive lattice enumeration against an exact rational model",
    ),
}
NOT_APPLICABLE = {}
