"""Per-property manifest texts (level, trusted base, deciding technique)."""
CHECKS = {
    "C07": dict(
        text="Generated-input search with an exact oracle: every node returned by line_coordinates/grid_coordinates/profile_coordinates is compared "
             "with nodes computed in rational arithmetic from the float inputs (8 eps tolerance), over an exhaustively enumerated rational lattice of "
             "(start, extent, spacing) x adjust x registration and Hypothesis-generated float regions, spacings, shapes, layouts and rejections. "
             "Exploration, not proof: it bounds node counts to ~200 per direction.",
        design_ref="DESIGN.md 5 (C07)",
        note="Trusts Python fractions/numpy comparison; spacings positive, shapes >= 1; .5 ties within 1e-9 accept both roundings.",
        technique="property-based testing (Hypothesis) + exhaustive lattice enumeration against an exact rational model",
    ),
    "C13": dict(
        text="Generated-input search against closed-form oracles: get_region vs min/max, inside vs the closed-box predicate element by element "
             "(points exactly on and one ulp around the bounds, any array shape/order), nodes of scatter_points/grid_coordinates inside the region, "
             "pad_region arithmetic and undo, project_region vs the exact bounding box for projections whose extrema fall on its sampling nodes, "
             "maxabs vs a NaN-aware reference, and rejection of invalid regions by every validating public function.",
        design_ref="DESIGN.md 5 (C13)",
        note="Finite float inputs; pad undo exact on dyadic values, 2 ulp otherwise; project_region only judged for projection families with a known exact bounding box.",
        technique="property-based testing (Hypothesis) against closed-form reference predicates",
    ),
    "C17": dict(
        text="Exhaustive enumeration of the (W, E) lattice (5 degrees, refined to 1 degree around the seams in the thorough tier) with probe longitudes "
             "on the same lattice, plus generated off-lattice arcs and invalid inputs, judged by exact modular arithmetic on rationals: W'<=E', bounds "
             "congruent mod 360, width preserved, latitudes untouched, longitudes congruent and in the returned convention, and verde.inside on the "
             "returned pair true exactly for longitudes angularly within the original arc.",
        design_ref="DESIGN.md 5 (C17)",
        note="Arcs representable in neither convention and arcs within 0.01 degree of (but not equal to) a full circle are counted, not asserted; off-lattice tolerance 1e-9 degree.",
        technique="exhaustive lattice enumeration + property-based testing (Hypothesis) against an exact rational model",
    ),
    "C08": dict(
        text="Generated block layouts with membership known by construction (block grid chosen first, then presented to verde as shape, dividing "
             "spacing, spacing to adjust, region to adjust or inferred region); points strictly inside blocks, exactly on shared edges/corners, a hair "
             "from edges and outside on every side; labels and block centres are compared with admissible label sets and centres computed in exact "
             "rational arithmetic (row-major numbering from the SW corner, nearest border block for outside points, raveled order for 2-D/Fortran inputs).",
        design_ref="DESIGN.md 5 (C08)",
        note="Points within 1e-9 block units of an edge may take either neighbour's label; up to 6x6 blocks and ~40 points per case.",
        technique="property-based testing (Hypothesis) with constructive generators against an exact rational reference model",
    ),
    "C09": dict(
        text="Generated clouds with membership known by construction; BlockReduce.filter output compared entry by entry with a brute-force group-by: "
             "one entry per non-empty block in ascending order, reduction of exactly the members' values with their own weights of the same component, "
             "coordinates reduced unweighted or the centre of that very block, extra coordinates reduced unless dropped, sums adding up to the input total.",
        design_ref="DESIGN.md 5 (C09)",
        note="Points at least 2% of a block away from edges; 1e-12 relative tolerance; weights only with reductions accepting a weights argument.",
        technique="property-based testing (Hypothesis) against a brute-force reference over construction-known membership",
    ),
    "C10": dict(
        text="BlockMean.filter compared per block with exact rational means/variances under each of the three documented weighting rules (both "
             "variance conventions admitted for the unweighted path), weights in (0,1] with a 1 present, inputs byte-identical afterwards (also "
             "read-only), uncertainty without weights rejected; variance_to_weights compared element-wise with its formula over arrays containing zeros, "
             "values at and around the tolerance, NaNs, several components, both dtypes, lists/arrays/read-only arrays. Extra coordinates are dropped or averaged per block as drop_coords says.",
        design_ref="DESIGN.md 5 (C10)",
        note="Cases whose exact block variance lies in [1e-18, 1e-12] are skipped (round-off could cross the 1e-15 tolerance); ddof 0 or 1 accepted consistently per call.",
        technique="property-based testing (Hypothesis) against exact rational per-block statistics",
    ),
    "C11": dict(
        text="Exhaustive enumeration of small block-occupancy vectors (populations 0..4 per block, 2..6 blocks, 1- and 2-row layouts) x n_splits x "
             "shuffle x balance x seeds for BlockKFold, plus generated layouts (up to 5x5 blocks, populations 0..30, shuffled sample order) for "
             "BlockKFold and BlockShuffleSplit; every split is checked to be a partition with no block on both sides; BlockKFold folds are non-empty, "
             "disjoint, covering, balanced within one block population (+n_splits) or equal in block count after the documented fallback; "
             "BlockShuffleSplit tests the number of blocks scikit-learn prescribes, picks the best-balanced candidate, and both are reproducible. A splitter object "
             "reused on a second layout must answer like a fresh one; partition_by_sum (the balancing step) is enumerated over all small arrays and part counts.",
        design_ref="DESIGN.md 5 (C11)",
        note="Membership known by construction (region inferred, corner points pin the bounding box); BlockShuffleSplit candidates assumed to be consecutive "
             "splits of one seeded scikit-learn ShuffleSplit stream over the occupied block ids.",
        technique="exhaustive enumeration of small occupancy vectors + property-based testing (Hypothesis) with validity predicates and a differential re-implementation",
    ),
    "C14": dict(
        text="Generated clouds on a dyadic lattice (exact edge comparisons, points on window edges by construction) and free-float clouds; window centres "
             "compared with the exact grid model on the region shrunk by half a window; for every window the returned indices must select exactly the "
             "closed-square members, index the input arrays directly (1-D and 2-D), be empty integer arrays for empty windows; coverage asserted when "
             "windows overlap; expanding windows follow the order of sizes and are nested; oversize/missing arguments rejected.",
        design_ref="DESIGN.md 5 (C14)",
        note="Free-float mode exempts points within 1e-9*size of a window edge; up to 40 points and 6x6 windows per case.",
        technique="property-based testing (Hypothesis) against a brute-force closed-square membership model in rational arithmetic",
    ),
    "C15": dict(
        text="Generated data/query clouds (integer lattices with exact distances, jittered scatters, clusters, far queries; 1-D/2-D shapes) judged "
             "against O(n*m) numpy distance matrices: KNeighbors = reduction of the values of exactly the k nearest points for every k and four "
             "reductions; median_distance = median of the k nearest other distances with and without anisotropic projection; distance_mask true exactly "
             "where the nearest projected data point is within maxdist (exact squared-distance comparison on the lattice); grid form blanks exactly the False cells.",
        design_ref="DESIGN.md 5 (C15)",
        note="Ties (k-th vs (k+1)-th distance within 1e-9 relative, |d_min - maxdist| within 1e-9) are excluded and counted; up to 30 data and 20 query points per case.",
        technique="property-based testing (Hypothesis) against brute-force distance matrices",
    ),
    "C16": dict(
        text="convexhull_mask judged against an exact convex hull (Andrew's monotone chain with integer/rational orientation tests): strictly inside "
             "=> True, strictly outside => False, under placements of scale 1e-3..1e7, aspect and offsets, array vs grid form, projections. project_grid "
             "judged for name, shape, regular grid of the (requested) region, NaN outside / finite inside the exact hull of the projected data, value "
             "reproduction at nodes for affine maps without antialiasing, affine-field reproduction, and the input range bound for nearest/linear.",
        design_ref="DESIGN.md 5 (C16)",
        note="Boundary points exempt (1e-9 / 1e-6 of the cloud diameter); open known finding D12 (antialias + linear/cubic: NaN within one block of the hull boundary, or "
             "triangulation failure on the block-averaged points) is matched narrowly and reported as KNOWN-FINDING.",
        technique="property-based testing (Hypothesis) against an exact rational convex-hull model and metamorphic placement",
    ),
    "C18": dict(
        text="Generated grids (1..7 x 1..7, non-uniform/descending axes, 0-4 variables with distinct values, 0-3 extra coordinates, custom dims/names, "
             "1-D or meshgrid coordinates): make_xarray_grid must place every value at its cell (checked on the arrays and by coordinate lookup), "
             "grid_to_table must return the raveled inputs in row-major order for Datasets and (un)named DataArrays built by verde or directly with "
             "xarray in either coordinate order; the 1-D/2-D conversions are mutually inverse; non-meshgrids and name-count mismatches are rejected.",
        design_ref="DESIGN.md 5 (C18)",
        note="Axis values pairwise distinct; column order of the table is not asserted (the property does not fix it).",
        technique="property-based testing (Hypothesis) with round-trip and cell-by-cell oracles",
    ),
    "C19": dict(
        text="Grammar-based generation of well-formed Surfer files (six number formats per token, whitespace/blank-line noise, blanks, both dtypes, "
             "path/StringIO/open-file delivery) compared cell by cell with a strict tokenizer; 15 kinds of single header/body faults that must be "
             "refused; character-edited files and an atheris (libFuzzer) byte-level campaign with a structure-aware decoder, both judged by: if "
             "load_surfer returns, the grid equals the strict reading and the header agrees with the body, and a strictly well-formed text is never "
             "refused; files opened by the function are closed on every path and caller-supplied objects left open.",
        design_ref="DESIGN.md 5 (C19)",
        note="Header layout as load_surfer documents it; texts with tokens that are not finite Python floats are outside the oracle; libFuzzer campaigns are pinned only approximately by -seed/-runs.",
        technique="grammar-based property testing (Hypothesis) + coverage-guided fuzzing (atheris) with a differential strict-parser oracle",
    ),
    "C01": dict(
        text="Generated clouds of pairwise distinct points (any scale/aspect/offset class, 1-D/2-D arrays, up to 300 points in the thorough tier) and finite "
             "data; every exact-interpolator configuration is fitted and asked for its own data back: Spline/VectorSpline2D within 64*kappa*eps*max|d| "
             "with kappa from the harness' own column-scaled Jacobian, KNeighbors(1) bitwise, Linear/Cubic within 1e-6 with no NaN at data points, nine "
             "Chain/Vector assemblies; Trend(N) fitted to exact values of integer-coefficient polynomials must reproduce them at other locations.",
        design_ref="DESIGN.md 5 (C01)",
        note="Systems with kappa > 1e10 (Trend: 1e8) are skipped and counted; clouds SciPy cannot triangulate are outside the domain; open known finding D9 (NaN at hull-vertex "
             "data points in Linear/Cubic) is matched narrowly and reported as KNOWN-FINDING.",
        technique="property-based testing (Hypothesis) with a conditioning-aware round-trip oracle",
    ),
    "C02": dict(
        text="Trend, Spline and VectorSpline2D fits (weights none/non-uniform/per component, damping none or 1e-8..1e2, forces at the data or elsewhere) "
             "are compared with an independently assembled (own kernels) and independently solved (SVD of the augmented, column-scaled system) weighted "
             "damped least-squares problem: predictions within a kappa-derived bound, and optimality asserted directly by evaluating the objective at "
             "verde's public parameters; plus invariance of undamped fits under a common weight factor and vanishing influence of a vanishing weight.",
        design_ref="DESIGN.md 5 (C02)",
        note="Under-determined undamped problems and kappa > 1e10 are skipped; prediction comparison is skipped (objective comparison kept) when its bound exceeds 1e-6 relative.",
        technique="property-based testing (Hypothesis): differential against an independent numpy-only reference solver + metamorphic relations",
    ),
    "C03": dict(
        text="Kernel-level oracle in 50-digit arithmetic (mpmath) on the float64 coordinate differences the code forms: Spline.jacobian entries and predict "
             "with externally set forces vs r^2(ln r - 1) at prescribed distances (0, 1e-300 ... 1-2^-53, 1, 1+2^-52, e down/up, 1e8); VectorSpline2D "
             "blocks [[ee, ne], [ne, nn]] vs the elastic Green's functions; Trend columns/predict vs the documented monomial order for degrees 0..6; "
             "CheckerBoard vs amplitude sin cos with default wavelengths; Linear/Cubic bitwise vs SciPy's interpolators; bitwise translation invariance on dyadic coordinates.",
        design_ref="DESIGN.md 5 (C03)",
        note="Vector spline pairs closer than 1e-150 count as coincident (positive mindist); engine='numba' not exercisable (numba absent).",
        technique="property-based testing (Hypothesis) against high-precision closed-form models and a SciPy differential",
    ),
    "C04": dict(
        text="Metamorphic pairs of fit/predict executions per gridder (10 kinds): the same element sequence as 2-D/Fortran/strided/pandas Series (also with "
             "a reversed index) arrays, signed/unsigned 8..64-bit integer dtypes of integer-valued coordinates/data/queries, nearly regular 2-D queries, appended extra coordinates -> predictions agree to "
             "1e-12 and have the query's shape; permutations of the data points -> agreement within a kappa-derived bound; linear combinations of data "
             "-> linear combinations of predictions for the gridders that are linear in the data.",
        design_ref="DESIGN.md 5 (C04)",
        note="Cubic is excluded from the permutation relation (SciPy's iterative gradient estimate is order dependent by several percent; verde's part is decided bitwise by the C03 differential); KNeighbors ties excluded; kappa > 1e8 skipped.",
        technique="property-based testing (Hypothesis) with metamorphic relations",
    ),
    "C05": dict(
        text="A harness-defined asymmetric analytic gridder (plus fitted Trend/KNeighbors and CheckerBoard) is gridded/profiled/scattered over generated "
             "regions, non-square shapes, spacings, registrations, explicit 1-D/meshgrid coordinates, extra coordinates, custom names, 1-3 components "
             "and invertible projections; every cell is compared with the analytic field evaluated at (easting[j], northing[i]) of the (projected) node, "
             "coordinate vectors with grid_coordinates/scatter_points, profile distances in projected units, names, dims and metadata.",
        design_ref="DESIGN.md 5 (C05)",
        note="Coordinate generators themselves are decided by C07/C13; tolerance 1e-12 relative (1e-9 / 1e-6 through projection round trips).",
        technique="property-based testing (Hypothesis) with an analytic reference field (any transposition/flip/shift changes values by >= 1)",
    ),
    "C06": dict(
        text="Generated step lists (length 1..4 over Trend, damped Spline, KNeighbors, Linear, BlockReduce, BlockMean, nested Chain, Vector, VectorSpline2D), "
             "scalar and 2-component data with different components, weights none/given, 1-D/2-D arrays. Reference model = the documented semantics executed "
             "by hand (clones threaded with args = step.filter(*args)): chain prediction equals the sum of the hand-fitted clones' predictions, every step's "
             "fitted attributes equal its clone's, prediction + last residual = data, refit equals a fresh fit; Vector component i equals the estimator "
             "fitted alone on data[i]/weights[i]; filter returns the given coordinates/weights and data - prediction in the data's shape.",
        design_ref="DESIGN.md 5 (C06)",
        note="Block reductions combined with weights only where the reduction accepts them; VectorSpline2D refits are judged in C20 (documented memory).",
        technique="property-based testing (Hypothesis) against a hand-threaded reference model of the composition",
    ),
    "C12": dict(
        text="cross_val_score is compared, split by split, with fresh clones fitted by the harness on the training rows only and scored on the test rows only "
             "with the harness' own weighted R2/MSE/RMSE/MAE formulas (component-averaged), using harness-owned fixed splits and five cross-validators; the "
             "estimator passed in must stay untouched; delayed results computed under the synchronous scheduler, 1..8 threads and one-at-a-time in generated "
             "orders must equal the serial scores bitwise; score() vs weighted R2 of predict(); train_test_split on value-coded rows (alignment of every "
             "coordinate/data/weight component, complementarity, whole blocks); SplineCV scores_/selection/prediction vs independent cross-validation.",
        design_ref="DESIGN.md 5 (C12)",
        note="The deprecated client= dispatch is not exercised; OS-level interleavings inside dask's thread pool are sampled, not controlled.",
        technique="property-based testing (Hypothesis): differential against independently fitted and scored models, harness-owned schedules",
    ),
    "C20": dict(
        text="(1) Purity sweep over a registry of ~140 public callables/estimator methods (array- and list-valued regions, mixed memory layouts) with writable and read-only arguments: argument bytes/shape/dtype/"
             "strides/flags identical after the call, results repeatable even after the caller overwrote the first result in place, read-only == writable, cross_val_score leaves its estimator untouched; (2) a Hypothesis rule-based state machine generates fit/"
             "predict/grid/clone/set_params/toggle_params histories over ten estimator kinds and seven datasets; after every step predictions must equal, bitwise, a fresh "
             "estimator fitted only on the latest dataset (VectorSpline2D with its documented first force locations) and region_ the latest bounding box; "
             "(3) predict-like calls before fit raise; (4) 32 kinds of single inconsistencies broken into valid arguments must be rejected.",
        design_ref="DESIGN.md 5 (C20)",
        note="least_squares(copy_jacobian=False) is the documented in-place exception; equal-size weights of different shape are not an inconsistency.",
        technique="property-based testing (Hypothesis) incl. a rule-based state machine for call histories, plus exhaustive sweeps of a callable registry",
    ),
}
NOT_APPLICABLE = {}
