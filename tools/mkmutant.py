#!/venv/bin/python
"""mkmutant.py NAME FILE OLD NEW [FILE OLD NEW ...]: write mutants/NAME.patch replacing the single occurrence of OLD by NEW in /repo/FILE
(nothing in /repo is touched)."""
import difflib, sys, os
name = sys.argv[1]
args = sys.argv[2:]
out = []
for k in range(0, len(args), 3):
    fn, old, new = args[k:k + 3]
    src = open(os.path.join("/repo", fn)).read()
    old, new = old.encode().decode("unicode_escape"), new.encode().decode("unicode_escape")
    if src.count(old) != 1:
        sys.exit("%s: OLD occurs %d times in %s" % (name, src.count(old), fn))
    dst = src.replace(old, new)
    out.extend(difflib.unified_diff(src.splitlines(True), dst.splitlines(True), "a/" + fn, "b/" + fn))
path = os.path.join(os.path.dirname(os.path.dirname(os.path.abspath(__file__))), "mutants", name + ".patch")
open(path, "w").write("".join(out))
print(path)
