import sys; sys.path.insert(0,"/tmp/scr/repo")
import verde as vd, io, traceback
text="DSAA\n2 3\n1.0 5.0\n-3.0 7.5\n1.0 6.0\n1.0 2.0 3.0\n4.0 5.0 6.0\n"
try: print(vd.load_surfer(io.StringIO(text)))
except Exception: traceback.print_exc()
import tempfile,os
p=os.path.join(tempfile.mkdtemp(),"a.grd"); open(p,"w").write(text)
try: print(vd.load_surfer(p).attrs)
except Exception: traceback.print_exc()
