import warnings, numpy as np, verde as vd
warnings.simplefilter("ignore")
rng=np.random.default_rng(29)
from scipy.spatial import ConvexHull
for ratio in [0,1,10,100,300,1000]:
    cnt={k:0 for k in ["lin","linr","cub","cubr"]}; interior={k:0 for k in cnt}; tot=0
    for t in range(400):
        n=int(rng.integers(4,30)); scale=10**rng.uniform(-2,6)
        sgn=rng.choice([-1,1],2)
        e=rng.uniform(0,1,n)*scale+sgn[0]*ratio*scale; no=rng.uniform(0,1,n)*scale+sgn[1]*ratio*scale
        d=rng.normal(size=n)
        hv=set(ConvexHull(np.column_stack([e,no])).vertices.tolist())
        tot+=1
        for name,mk in dict(lin=lambda:vd.Linear(), linr=lambda:vd.Linear(rescale=True), cub=lambda:vd.Cubic(), cubr=lambda:vd.Cubic(rescale=True)).items():
            p=mk().fit((e,no),d).predict((e,no))
            bad=np.isnan(p)
            if bad.any():
                cnt[name]+=1
                if any(i not in hv for i in np.where(bad)[0]): interior[name]+=1
    print(ratio,tot,cnt,interior)
