import sys; sys.path.insert(0,"/tmp/scr/repo")
import warnings, numpy as np, verde as vd
from sklearn.base import clone
warnings.simplefilter("ignore")
rng=np.random.default_rng(9); bad=[]
def ds(n):
    return (rng.uniform(0,10,n),rng.uniform(0,10,n)),(rng.normal(size=n),rng.normal(size=n)),(rng.uniform(.5,2,n),rng.uniform(.5,2,n))
def mk():
    return dict(spline=vd.Spline(), splined=vd.Spline(damping=1e-3), trend=vd.Trend(2), knn=vd.KNeighbors(3), lin=vd.Linear(), cub=vd.Cubic(),
      vs=vd.VectorSpline2D(mindist=1,damping=1e-3,force_coords=None), vec=vd.Vector([vd.Trend(1),vd.Spline(damping=1e-2)]), chain=vd.Chain([("t",vd.Trend(1)),("s",vd.Spline(damping=1e-2))]),
      scv=vd.SplineCV(dampings=[1e-3,1e-1]))
q=(rng.uniform(2,8,7),rng.uniform(2,8,7))
def flat(p): return np.concatenate([np.ravel(x) for x in (p if isinstance(p,tuple) else (p,))])
for rep in range(20):
    A=ds(int(rng.integers(8,30))); B=ds(int(rng.integers(8,30)))
    for name in mk():
        vec=name in ("vs","vec")
        def fit(m,D): return m.fit(D[0], D[1] if vec else D[1][0], D[2] if vec else D[2][0])
        m=fit(fit(mk()[name],A),B)
        if name=="vs":
            f=vd.VectorSpline2D(mindist=1,damping=1e-3,force_coords=tuple(x.copy() for x in A[0]))
        else: f=mk()[name]
        fit(f,B)
        c=fit(clone(mk()[name]),B) if name!="vs" else f
        a,b,cc=flat(m.predict(q)),flat(f.predict(q)),flat(c.predict(q))
        if not (np.array_equal(a,b,equal_nan=True) and np.array_equal(b,cc,equal_nan=True)): bad.append((name,np.nanmax(np.abs(a-b))))
print(len(bad),bad[:10])
