import sys; sys.path.insert(0,"/tmp/scr/repo")
import warnings, numpy as np, verde as vd, dask
from sklearn.model_selection import ShuffleSplit
from sklearn.base import clone
warnings.simplefilter("ignore")
rng=np.random.default_rng(5); bad=[]
class Fixed:
    def __init__(self,splits): self.splits=splits
    def split(self,X,y=None,groups=None):
        for tr,te in self.splits: yield np.array(tr),np.array(te)
    def get_n_splits(self,*a,**k): return len(self.splits)
def r2(y,p,w):
    if w is None: w=np.ones_like(y)
    m=np.average(y,weights=w); return 1-np.sum(w*(y-p)**2)/np.sum(w*(y-m)**2)
def mse(y,p,w): 
    if w is None: w=np.ones_like(y)
    return -np.average((y-p)**2,weights=w)
for t in range(150):
    n=int(rng.integers(12,40))
    e=rng.uniform(0,10,n); no=rng.uniform(0,10,n)
    ncomp=int(rng.integers(1,3))
    data=tuple(1+0.5*e-0.2*no+rng.normal(size=n)+c for c in range(ncomp))
    wts=tuple(rng.uniform(0.2,3,n) for _ in range(ncomp)) if rng.random()<0.6 else None
    splits=[]
    for k in range(int(rng.integers(2,5))):
        perm=rng.permutation(n); nt=int(rng.integers(3,n//2)); splits.append((sorted(perm[nt:].tolist()),sorted(perm[:nt].tolist())))
    if ncomp==1: est=[vd.Trend(1),vd.Spline(damping=1e-2),vd.KNeighbors(3)][rng.integers(0,3)]
    else: est=vd.Vector([vd.Trend(1),vd.KNeighbors(2)])
    scoring=[None,"r2","neg_mean_squared_error"][rng.integers(0,3)]
    dd=data if ncomp>1 else data[0]; ww=None if wts is None else (wts if ncomp>1 else wts[0])
    got=vd.cross_val_score(est,(e,no),dd,weights=ww,cv=Fixed(splits),scoring=scoring)
    exp=[]
    for tr,te in splits:
        m=clone(est); tr=np.array(tr); te=np.array(te)
        m.fit((e[tr],no[tr]), tuple(x[tr] for x in data) if ncomp>1 else data[0][tr], None if wts is None else (tuple(x[tr] for x in wts) if ncomp>1 else wts[0][tr]))
        p=m.predict((e[te],no[te])); p=p if isinstance(p,tuple) else (p,)
        f=mse if scoring=="neg_mean_squared_error" else r2
        exp.append(np.mean([f(data[c][te],p[c],None if wts is None else wts[c][te]) for c in range(ncomp)]))
    if not np.allclose(got,exp,rtol=1e-9,atol=1e-12): bad.append(("cvs",type(est).__name__,scoring,got,exp))
    dl=vd.cross_val_score(est,(e,no),dd,weights=ww,cv=Fixed(splits),scoring=scoring,delayed=True)
    a=dask.compute(*dl,scheduler="synchronous"); b=dask.compute(*dl,scheduler="threads",num_workers=4)
    order=rng.permutation(len(dl)); c=[None]*len(dl)
    for i in order: c[i]=dl[i].compute(scheduler="synchronous")
    if not (np.array_equal(a,got) and np.array_equal(b,got) and np.array_equal(c,got)): bad.append(("delayed",))
    if any(hasattr(est,x) for x in ("coef_","force_","tree_","region_")): bad.append(("touched",))
print(len(bad),bad[:5])
# BlockShuffleSplit reimplementation
bad=[]
for t in range(200):
    n=int(rng.integers(20,80)); e=rng.uniform(0,10,n); no=rng.uniform(0,10,n); X=np.column_stack([e,no])
    sp=rng.uniform(1.5,4); ns=int(rng.integers(1,5)); bal=int(rng.integers(1,6)); ts=[0.1,0.3,0.5,2,3][rng.integers(0,5)]; seed=int(rng.integers(0,100))
    labels=vd.block_split((e,no),spacing=sp)[1]; ids=np.unique(labels)
    if isinstance(ts,int) and ts>=len(ids): continue
    got=[te for _,te in vd.BlockShuffleSplit(spacing=sp,n_splits=ns,test_size=ts,random_state=seed,balancing=bal).split(X)]
    stream=ShuffleSplit(n_splits=ns*bal,test_size=ts,random_state=seed).split(ids)
    exp=[]
    for i in range(ns):
        cands=[]
        for j in range(bal):
            trb,teb=next(stream)
            trp=np.where(np.isin(labels,ids[trb]))[0]; tep=np.where(np.isin(labels,ids[teb]))[0]
            cands.append((abs(trp.size/tep.size-trb.size/teb.size),tep))
        exp.append(cands[int(np.argmin([c[0] for c in cands]))][1])
    if len(got)!=ns or not all(np.array_equal(a,b) for a,b in zip(got,exp)): bad.append((sp,ns,bal,ts,seed))
print(len(bad),bad[:5])
