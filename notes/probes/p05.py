import warnings, numpy as np, verde as vd, xarray as xr
warnings.simplefilter("ignore")
class Asym(vd.base.BaseGridder):
    def __init__(self, ncomp=1): self.ncomp=ncomp
    def fit(self, coordinates, data, weights=None):
        self.region_ = vd.get_region(coordinates); return self
    def predict(self, coordinates):
        e,n = coordinates[:2]
        e=np.asarray(e,float); n=np.asarray(n,float)
        out = tuple(1000*(c+1)+ 3*e - 7*n + 0.01*e*n + 0.001*e**2 for c in range(self.ncomp))
        return out[0] if self.ncomp==1 else out
rng=np.random.default_rng(2); bad=[]
def f(e,n,c=0): return 1000*(c+1)+3*e-7*n+0.01*e*n+0.001*e**2
for t in range(300):
    w=rng.uniform(-100,100); e_=w+rng.uniform(1,50); s=rng.uniform(-100,100); n_=s+rng.uniform(1,50)
    region=(w,e_,s,n_)
    ncomp=int(rng.integers(1,4))
    g=Asym(ncomp)
    kw={}
    if rng.random()<0.5: kw["shape"]=(int(rng.integers(1,8)),int(rng.integers(1,8)))
    else:
        kw["spacing"]=(rng.uniform(0.5,20),rng.uniform(0.5,20)); kw["adjust"]=str(rng.choice(["spacing","region"]))
    kw["pixel_register"]=bool(rng.random()<0.5)
    if rng.random()<0.4: kw["extra_coords"]=[5.0, -2.0][:int(rng.integers(1,3))]
    proj=None
    if rng.random()<0.4:
        proj=lambda x,y: (2*x+10, -3*y+1)
    names=None
    if rng.random()<0.5: names=["a","b","c"][:ncomp]
    dims=None
    if rng.random()<0.5: dims=("lat","lon")
    use_fit = rng.random()<0.3
    try:
        if use_fit:
            g.fit((np.array([w,e_]),np.array([s,n_])),None); grid=g.grid(dims=dims,data_names=names,projection=proj,**kw)
        else:
            grid=g.grid(region=region,dims=dims,data_names=names,projection=proj,**kw)
    except Exception as ex:
        bad.append(("EXC",type(ex).__name__,str(ex)[:80],kw)); continue
    d0,d1 = dims or ("northing","easting")
    kk={k:v for k,v in kw.items()}
    E,N=vd.grid_coordinates(region,meshgrid=False,**{k:v for k,v in kk.items() if k!="extra_coords"})
    if grid[list(grid.data_vars)[0]].dims!=(d0,d1): bad.append(("dims",))
    if not (np.array_equal(grid[d1].values,E) and np.array_equal(grid[d0].values,N)): bad.append(("coords",)); continue
    nm = names or [("scalars",),("east_component","north_component"),("east_component","north_component","vertical_component")][ncomp-1]
    for c,name in enumerate(nm):
        vals=grid[name].values
        for i in range(len(N)):
            for j in range(len(E)):
                pe,pn=(E[j],N[i]) if proj is None else proj(E[j],N[i])
                if not np.isclose(vals[i,j], f(pe,pn,c), rtol=1e-12): bad.append(("val",i,j)); break
    if "extra_coords" in kw:
        for q,v in enumerate(kw["extra_coords"]):
            nmx = "extra_coord" if q==0 else f"extra_coord_{q}"
            if not np.all(grid[nmx].values==v): bad.append(("extra",))
    if "metadata" not in grid.attrs or any("metadata" not in grid[v].attrs for v in grid.data_vars): bad.append(("meta",))
print(len(bad)); print(bad[:10])
