import sys; sys.path.insert(0,"/tmp/scr/repo")
import warnings, numpy as np, verde as vd, xarray as xr
warnings.simplefilter("ignore")
rng=np.random.default_rng(3); bad=[]
for t in range(200):
    ny=int(rng.integers(3,9)); nx=int(rng.integers(3,9))
    E=np.linspace(rng.uniform(-50,50),0,nx); E=E[0]+np.arange(nx)*rng.uniform(0.5,3)
    N=rng.uniform(-50,50)+np.arange(ny)*rng.uniform(0.5,3)
    vals=rng.normal(size=(ny,nx))*10
    name=[None,"topo"][rng.integers(0,2)]
    g=xr.DataArray(vals,coords={"northing":N,"easting":E},dims=("northing","easting"),name=name)
    a=rng.choice([-1,1])*10**rng.uniform(-1,3); b=rng.uniform(-1e3,1e3); c=rng.choice([-1,1])*10**rng.uniform(-1,3); d=rng.uniform(-1e3,1e3)
    proj=lambda x,y:(a*x+b,c*y+d)
    method=["linear","nearest","cubic"][rng.integers(0,3)]
    try: p=vd.project_grid(g,proj,method=method,antialias=False)
    except Exception as ex: bad.append(("EXC",type(ex).__name__,str(ex)[:80])); continue
    if p.name!=(name or "scalars") or p.shape!=(ny,nx): bad.append(("name/shape",p.name,p.shape)); continue
    pe=a*E+b; pn=c*N+d
    ie=np.argsort(pe); inn=np.argsort(pn)
    if not (np.allclose(p.easting.values,pe[ie],rtol=1e-9,atol=1e-9) and np.allclose(p.northing.values,pn[inn],rtol=1e-9,atol=1e-9)): bad.append(("coords",)); continue
    exp=vals[np.ix_(inn,ie)]
    got=p.values
    inner=got[1:-1,1:-1]; 
    if np.isnan(inner).any() or not np.allclose(inner,exp[1:-1,1:-1],rtol=0,atol=1e-8*np.abs(vals).max()): bad.append(("inner",method,np.nanmax(np.abs(inner-exp[1:-1,1:-1])))); continue
    ring=np.ones_like(got,bool); ring[1:-1,1:-1]=False
    r=got[ring]; rr=exp[ring]; ok=np.isnan(r)|(np.abs(r-rr)<=1e-8*np.abs(vals).max())
    if not ok.all(): bad.append(("ring",method))
    # antialias range
    p2=vd.project_grid(g,proj,method=method,antialias=True)
    if method!="cubic":
        v=p2.values[~np.isnan(p2.values)]
        if v.size and (v.min()<vals.min()-1e-9 or v.max()>vals.max()+1e-9): bad.append(("range",method))
print(len(bad),bad[:10])
