import sys; sys.path.insert(0,"/tmp/scr/repo")
import warnings, numpy as np, verde as vd
warnings.simplefilter("ignore")
rng=np.random.default_rng(12)
def kern(dx,dy,md,nu):
    r=np.hypot(dx,dy)+md
    ln=(3-nu)*np.log(r); o=(1+nu)/r**2
    return ln+o*dy**2, ln+o*dx**2, -o*dx*dy
def Jv(e,n,fe,fn,md,nu):
    ee,nn,ne=kern(e[:,None]-fe[None,:],n[:,None]-fn[None,:],md,nu)
    return np.block([[ee,ne],[ne,nn]])
def ref(J,d,w,lam):
    s=J.std(axis=0); s[s==0]=1; Js=J/s
    sw=np.sqrt(w); A=Js*sw[:,None]; b=d*sw
    if lam is not None:
        A=np.vstack([A,np.sqrt(lam)*np.eye(J.shape[1])]); b=np.concatenate([b,np.zeros(J.shape[1])])
    p,*_=np.linalg.lstsq(A,b,rcond=None); sv=np.linalg.svd(A,compute_uv=False)
    return p/s, sv[0]/sv[-1], s
def obj(J,s,p,d,w,lam):
    r=d-J@p; return np.sum(w*r*r)+(0 if lam is None else lam*np.sum((p*s)**2))
worst_pred=0; worst_obj=-1; skipped=0; tot=0
for t in range(400):
    n=int(rng.integers(4,25)); scale=10**rng.uniform(-1,5)
    e=rng.uniform(0,1,n)*scale; no=rng.uniform(0,1,n)*scale
    d=(rng.normal(size=n),rng.normal(size=n)*3)
    w=(rng.uniform(.1,10,n),rng.uniform(.1,10,n)) if rng.random()<.7 else None
    lam=10**rng.uniform(-8,2) if rng.random()<.7 else None
    nu=rng.uniform(-1,1); md=scale*10**rng.uniform(-2,0)
    if rng.random()<.5: m=int(rng.integers(2,n)); fc=(rng.uniform(0,1,m)*scale,rng.uniform(0,1,m)*scale)
    else: fc=None
    if lam is None and fc is None: w=None  # exact
    est=vd.VectorSpline2D(poisson=nu,mindist=md,damping=lam,force_coords=fc).fit((e,no),d,w)
    fe,fn=(e,no) if fc is None else fc
    J=Jv(e,no,fe,fn,md,nu); dd=np.concatenate(d); ww=np.ones(2*n) if w is None else np.concatenate(w)
    p,cond,s=ref(J,dd,ww,lam)
    tot+=1
    bound=(cond**2 if lam is not None else cond)*2.2e-16
    if bound>1e-7: skipped+=1; continue
    q=(rng.uniform(0,1,5)*scale,rng.uniform(0,1,5)*scale)
    Jq=Jv(q[0],q[1],fe,fn,md,nu); pr=Jq@p; pv=np.concatenate(est.predict(q))
    sc=np.abs(Jq)@np.abs(p)
    worst_pred=max(worst_pred,(np.abs(pr-pv)/sc).max()/bound)
    o1=obj(J,s,est.force_,dd,ww,lam); o0=obj(J,s,p,dd,ww,lam)
    worst_obj=max(worst_obj,(o1-o0)/max(o0,1e-300) if o0>1e-20*np.sum(ww*dd*dd) else 0)
print(tot,skipped,"pred ratio",worst_pred,"obj rel excess",worst_obj)
