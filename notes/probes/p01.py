import warnings, numpy as np, verde as vd
warnings.simplefilter("ignore")
rng = np.random.default_rng(0)
def gref(r):
    out = np.zeros_like(r)
    nz = r>0
    out[nz] = r[nz]**2*(np.log(r[nz])-1)
    return out
for scale in [1e-2,1,1e3,1e6]:
  for n in [3,5,10,20,40,80]:
    for off in [0, 1e3]:
        e = rng.uniform(0,1,n)*scale + off*scale
        no = rng.uniform(0,1,n)*scale + off*scale
        d = rng.normal(size=n)
        J = gref(np.hypot(e[:,None]-e[None,:], no[:,None]-no[None,:]))
        s = J.std(axis=0); Js = J/s
        sv = np.linalg.svd(Js, compute_uv=False)
        cond = sv[0]/sv[-1]
        sp = vd.Spline().fit((e,no), d)
        err = np.abs(sp.predict((e,no))-d).max()
        print(f"scale={scale:g} n={n} off={off:g} cond={cond:.2e} err={err:.2e} ratio={err/(cond*2.2e-16*np.abs(d).max()):.2e}")
