import warnings, numpy as np, verde as vd, xarray as xr
from fractions import Fraction as F
warnings.simplefilter("ignore")
rng=np.random.default_rng(11); bad=[]
def hull(points):
    pts=sorted(set(points))
    def cross(o,a,b): return (a[0]-o[0])*(b[1]-o[1])-(a[1]-o[1])*(b[0]-o[0])
    lo=[]
    for p in pts:
        while len(lo)>=2 and cross(lo[-2],lo[-1],p)<=0: lo.pop()
        lo.append(p)
    up=[]
    for p in reversed(pts):
        while len(up)>=2 and cross(up[-2],up[-1],p)<=0: up.pop()
        up.append(p)
    return lo[:-1]+up[:-1]
def classify(h,p):
    # returns 1 inside strict, 0 boundary, -1 outside (ccw hull)
    s=[]
    for i in range(len(h)):
        a=h[i]; b=h[(i+1)%len(h)]
        c=(b[0]-a[0])*(p[1]-a[1])-(b[1]-a[1])*(p[0]-a[0])
        s.append(c)
    if all(c>0 for c in s): return 1
    if any(c<0 for c in s): return -1
    return 0
tot=0
for t in range(200):
    n=int(rng.integers(3,25))
    pts=[(int(a),int(b)) for a,b in zip(rng.integers(0,12,n),rng.integers(0,12,n))]
    h=hull(pts)
    if len(h)<3: continue
    scale=10**rng.uniform(-3,7); off=(rng.uniform(-1,1)*scale*100, rng.uniform(-1,1)*scale*100)
    q=[(int(a),int(b)) for a,b in zip(rng.integers(-2,14,60),rng.integers(-2,14,60))]
    # use half-integer queries too
    de=np.array([p[0] for p in pts],float)*scale+off[0]; dn=np.array([p[1] for p in pts],float)*scale+off[1]
    qe=np.array([p[0] for p in q],float)*scale+off[0]; qn=np.array([p[1] for p in q],float)*scale+off[1]
    m=vd.convexhull_mask((de,dn),coordinates=(qe,qn))
    for k,p in enumerate(q):
        c=classify(h,p); tot+=1
        if c==1 and not m[k]: bad.append(("in->False",scale,p))
        if c==-1 and m[k]: bad.append(("out->True",scale,p,pts))
print(tot,len(bad)); print(bad[:5])
