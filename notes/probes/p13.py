import sys; sys.path.insert(0,"/tmp/scr/repo")
import warnings, numpy as np, verde as vd
warnings.simplefilter("ignore")
rng=np.random.default_rng(33); bad=[]
for t in range(500):
    shp=[(7,),(3,4),(2,3,2)][rng.integers(0,3)]
    e=rng.uniform(-100,100,shp); n=rng.uniform(-100,100,shp)
    r=vd.get_region((e,n))
    if r!=(e.min(),e.max(),n.min(),n.max()): bad.append("get_region")
    ins=vd.inside((e,n),r)
    if ins.shape!=e.shape or not ins.all() or ins.dtype!=bool: bad.append("own region")
    w,ee,s,nn=sorted(rng.uniform(-100,100,2).tolist())+sorted(rng.uniform(-100,100,2).tolist())
    reg=(w,ee,s,nn)
    # put some points exactly on boundary
    e2=e.copy(); e2.flat[0]=w; e2.flat[1]=ee; n2=n.copy(); n2.flat[0]=s; n2.flat[2]=nn
    exp=(e2>=w)&(e2<=ee)&(n2>=s)&(n2<=nn)
    if not np.array_equal(vd.inside((e2,n2),reg),exp): bad.append("inside")
    pn,pe=rng.uniform(0,10),rng.uniform(0,10)
    p=vd.pad_region(reg,(pn,pe))
    if not np.allclose(p,(w-pe,ee+pe,s-pn,nn+pn)): bad.append("pad")
    back=vd.pad_region(p,(-pn,-pe))
    if not np.allclose(back,reg,rtol=0,atol=1e-12*200): bad.append("pad undo")
    size=int(rng.integers(1,50)); seed=int(rng.integers(0,1e6))
    a=vd.scatter_points(reg,size,random_state=seed,extra_coords=[3,4]); b=vd.scatter_points(reg,size,random_state=seed,extra_coords=[3,4])
    if not all(np.array_equal(x,y) for x,y in zip(a,b)) or not vd.inside(a,reg).all() or len(a)!=4 or not (a[2]==3).all(): bad.append("scatter")
    shape=(int(rng.integers(1,9)),int(rng.integers(1,9)))
    g=vd.grid_coordinates(reg,shape=shape)
    if not vd.inside(g,reg).all(): bad.append(("grid inside shape",reg,shape))
    sp=rng.uniform(0.1,50)
    g=vd.grid_coordinates(reg,spacing=sp)
    if not vd.inside(g,reg).all(): bad.append(("grid inside spacing",reg,sp))
    g=vd.grid_coordinates(reg,shape=shape,pixel_register=True)
    if not vd.inside(g,reg).all(): bad.append(("grid inside pixel",reg,shape))
    # project_region: monotone
    a1,b1=rng.choice([-1,1])*rng.uniform(.1,10),rng.uniform(-10,10)
    pr=vd.project_region(reg,lambda x,y:(a1*x+b1, y**3))
    expr=(min(a1*w+b1,a1*ee+b1),max(a1*w+b1,a1*ee+b1),s**3,nn**3)
    if not np.allclose(pr,expr,rtol=1e-12): bad.append("project_region")
    # quadratic with vertex at midpoint
    mid=(w+ee)/2
    pr=vd.project_region(reg,lambda x,y:((x-mid)**2, y))
    if not np.allclose(pr[:2],(0,((ee-w)/2)**2),rtol=1e-9,atol=1e-18*((ee-w)**2)): bad.append(("project_region quad",pr[:2],((ee-w)/2)**2))
    arrs=[rng.normal(size=int(rng.integers(1,6)))*10**rng.uniform(-3,3) for _ in range(int(rng.integers(1,4)))]
    if vd.maxabs(*arrs)!=max(np.abs(x).max() for x in arrs): bad.append("maxabs")
import collections; print(collections.Counter([b if isinstance(b,str) else b[0] for b in bad])); print([b for b in bad if not isinstance(b,str)][:5])
