import warnings, numpy as np, verde as vd
warnings.simplefilter("ignore")
bad = []
vals = list(range(-180, 361, 5))
tot=0
for w in vals:
    for e in vals:
        if abs(e-w) > 360: continue
        # representable arc: contiguous in either convention: w<=e in given numbers, or w>e meaning crossing
        tot+=1
        try:
            r = vd.longitude_continuity(None, [w,e,-10,10])
        except Exception as ex:
            bad.append((w,e,"EXC",str(ex)[:50])); continue
        W,E = r[0], r[1]
        width_in = (e-w)%360
        if abs(e-w)==360: width_in=360
        ok = W<=E and abs(((W-w)%360))<1e-9 and (abs((E-e)%360)<1e-9) and abs((E-W)-width_in)<1e-9
        if not ok: bad.append((w,e,float(W),float(E)))
print(tot, len(bad)); print(bad[:60])
