import warnings, numpy as np, verde as vd
from fractions import Fraction as F
warnings.simplefilter("ignore")
bad=[]; cnt=0
# rational lattice
starts=[F(-5),F(0),F(1,3),F(1000)]
exts=[F(0),F(1,2),F(1),F(5,2),F(10),F(7,3)]
sps=[F(1,4),F(1,2),F(1),F(3,2),F(5),F(25),F(7,10),F(2,3)]
for s in starts:
  for ex in exts:
    for sp in sps:
      for adjust in ("spacing","region"):
        for pix in (False,True):
          cnt+=1
          a=float(s); b=float(s+ex); h=float(sp)
          try: v = vd.line_coordinates(a,b,spacing=h,adjust=adjust,pixel_register=pix)
          except Exception as e_: bad.append(("EXC",a,b,h,adjust,pix,str(e_))); continue
          ratio = ex/sp
          fl = ratio.numerator//ratio.denominator
          frac = ratio - fl
          cands = {fl, fl+1} if frac==F(1,2) else {fl if frac<F(1,2) else fl+1}
          cands = {max(c,1) for c in cands}
          nint = len(v)-1 if not pix else len(v)
          if nint not in cands: bad.append(("nint",a,b,h,adjust,pix,nint,cands)); continue
          if adjust=="spacing": stop=s+ex; step = ex/nint
          else: stop = s+nint*sp; step=sp
          exp = [float(s+step*i) for i in range(nint+1)]
          if pix: exp=[float(s+step*i+step/2) for i in range(nint)]
          if not np.allclose(v,exp,rtol=1e-12,atol=1e-12*max(1,abs(a),abs(b))): bad.append(("vals",a,b,h,adjust,pix,v,exp))
print(cnt,len(bad)); 
for b_ in bad[:20]: print(b_)
