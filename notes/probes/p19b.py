import sys; sys.path.insert(0,"/tmp/scr/repo")
import warnings, numpy as np, verde as vd, io, os, tempfile, builtins
warnings.simplefilter("ignore")
vio=sys.modules["verde.io"]
opened=[]
def topen(*a,**k):
    f=builtins.open(*a,**k); opened.append(f); return f
vio.open=topen
rng=np.random.default_rng(7); res={}
def mk(nr,nc,vals,blank,hdr=None,wrap=None):
    good=vals[~blank]; zmin,zmax=float(good.min()),float(good.max())
    h=dict(nr=nr,nc=nc,s=1.0,n=5.0,w=-3.0,e=7.5,zmin=zmin,zmax=zmax)
    if hdr: h.update(hdr)
    lines=["DSAA",f"{h['nr']} {h['nc']}",f"{h['s']!r} {h['n']!r}",f"{h['w']!r} {h['e']!r}",f"{h['zmin']!r} {h['zmax']!r}"]
    if "extra" in h: lines[1]+=" 3"
    for i in range(nr):
        toks=["1.70141e38" if blank[i,j] else repr(float(vals[i,j])) for j in range(nc)]
        if wrap:
            for k in range(0,nc,wrap): lines.append(" ".join(toks[k:k+wrap]))
        else: lines.append(" ".join(toks))
    return "\n".join(lines)+"\n"
d=tempfile.mkdtemp()
for t in range(300):
    nr=int(rng.integers(2,7)); nc=int(rng.integers(2,7)); vals=rng.normal(size=(nr,nc))*100; blank=rng.random((nr,nc))<0.2
    if blank.all(): blank[0,0]=False
    faults={"ok":None,"rows+1":dict(nr=nr+1),"cols-1":dict(nc=nc-1),"swap":dict(nr=nc,nc=nr),"zshift":dict(zmin=float(vals[~blank].min()-50),zmax=float(vals[~blank].max()-50)),
            "zswap":dict(zmin=float(vals[~blank].max()),zmax=float(vals[~blank].min())),"extra":dict(extra=1)}
    for name,h in faults.items():
        if name=="swap" and nr==nc: continue
        if name=="zswap" and vals[~blank].max()-vals[~blank].min()<1e-3: continue
        text=mk(nr,nc,vals,blank,h)
        path=os.path.join(d,"g.grd"); open(path,"w").write(text)
        opened.clear()
        try:
            g=vd.load_surfer(path); out="returned"
            g2=vd.load_surfer(io.StringIO(text))
            if not g.equals(g2): out="path!=fileobj"
            if name=="ok":
                exp=np.where(blank,np.nan,vals)
                if not np.array_equal(g.values,exp,equal_nan=True) or g.attrs.get("file")!=path or g.attrs.get("gridID")!="DSAA": out="WRONG"
        except Exception as ex: out="raised "+type(ex).__name__
        if any(not f.closed for f in opened): out+=" LEAK"
        if len(opened)!=1: out+=" opened%d"%len(opened)
        res.setdefault(name,{}); res[name][out]=res[name].get(out,0)+1
    # wrapped
    for wrap in (2,3):
        if wrap>=nc: continue
        text=mk(nr,nc,vals,blank,None,wrap)
        try: g=vd.load_surfer(io.StringIO(text)); out="returned shape %s vs %s"%(g.shape,(nr,nc)); 
        except Exception as ex: out="raised "+type(ex).__name__
        res.setdefault("wrap",{}); res["wrap"][out[:30]]=res["wrap"].get(out[:30],0)+1
for k,v in res.items(): print(k,v)
