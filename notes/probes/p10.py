import sys; sys.path.insert(0,"/tmp/scr/repo")
import warnings, numpy as np, verde as vd
warnings.simplefilter("ignore")
rng=np.random.default_rng(21); bad=[]
def v2w(v,tol=1e-15):
    v=np.where(np.isnan(v),0,v); w=np.ones_like(v); nz=v>tol
    if nz.any(): w[nz]=v[nz][nz[nz]].min()/v[nz] if False else v[nz].min()/v[nz]
    return w
for t in range(400):
    ny=int(rng.integers(1,5)); nx=int(rng.integers(1,5)); dx=rng.uniform(.5,5); dy=rng.uniform(.5,5); W=rng.uniform(-50,50); S=rng.uniform(-50,50)
    region=(W,W+nx*dx,S,S+ny*dy); n=int(rng.integers(1,50))
    bi=rng.integers(0,ny,n); bj=rng.integers(0,nx,n); e=W+(bj+rng.uniform(.02,.98,n))*dx; no=S+(bi+rng.uniform(.02,.98,n))*dy; lab=bi*nx+bj; u=np.unique(lab)
    nc=int(rng.integers(1,3)); data=tuple(rng.normal(size=n)*10**rng.uniform(-2,2) for _ in range(nc))
    if rng.random()<0.2: data=tuple(np.round(d) for d in data)
    mode=rng.integers(0,3)
    wts=None if mode==0 else tuple(rng.uniform(.1,10,n) for _ in range(nc))
    unc=(mode==2)
    try:
        out=vd.BlockMean(shape=(ny,nx),region=region,uncertainty=unc).filter((e,no),data if nc>1 else data[0],None if wts is None else (wts if nc>1 else wts[0]))
    except Exception as ex: bad.append(("EXC",mode,type(ex).__name__,str(ex)[:60])); continue
    c,m,w=out
    if nc==1: m=(m,); w=(w,)
    for k in range(nc):
        if wts is None:
            em=np.array([data[k][lab==b].mean() for b in u])
            var0=np.array([data[k][lab==b].var() for b in u]); var1=np.array([data[k][lab==b].var(ddof=1) if (lab==b).sum()>1 else np.nan for b in u])
            ok=np.allclose(w[k],v2w(var0),rtol=1e-9) or np.allclose(w[k],v2w(var1),rtol=1e-9)
        else:
            em=np.array([np.average(data[k][lab==b],weights=wts[k][lab==b]) for b in u])
            if unc: var=np.array([1/wts[k][lab==b].sum() for b in u])
            else: var=np.array([np.average((data[k][lab==b]-mm)**2,weights=wts[k][lab==b]) for b,mm in zip(u,em)])
            ok=np.allclose(w[k],v2w(var),rtol=1e-9)
        if not np.allclose(m[k],em,rtol=1e-10) or not ok: bad.append(("val",mode,k,w[k],)); 
        if not ((w[k]>0).all() and (w[k]<=1).all() and (w[k]==1).any()): bad.append(("range",mode))
print(len(bad),bad[:5])
