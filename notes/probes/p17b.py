import sys; sys.path.insert(0, sys.argv[1])
import warnings, numpy as np, verde as vd
from fractions import Fraction as F
print(vd.__file__)
warnings.simplefilter("ignore")
vals=list(range(-180,361,5)); lons=np.array(list(range(-180,361,5)),float)
lats=np.zeros_like(lons)
bad=[]; tot=0; nonrep=0
for w in vals:
    for e in vals:
        if abs(e-w)>360: continue
        width=(e-w)%360
        if abs(e-w)==360: width=360
        w360=w%360; w180=((w+180)%360)-180
        rep = (w360+width<=360) or (w180+width<=180)
        if not rep: nonrep+=1; continue
        tot+=1
        (lo,la),r=vd.longitude_continuity([lons,lats],[w,e,-10,10])
        W,E=r[0],r[1]
        ok = W<=E and (E-W)==width and ((W-w)%360==0 or width==360) and ((E-e)%360==0 or width==360) and r[2]==-10 and r[3]==10
        ok = ok and np.all((lo-lons)%360==0)
        ins=vd.inside((lo,la),(W,E,-10,10))
        exp=((lons-w)%360)<=width
        if width==360: exp[:]=True
        if not ok or not np.array_equal(ins,exp): bad.append((w,e,float(W),float(E),lons[ins!=exp][:4].tolist()))
print(tot,nonrep,len(bad)); print(bad[:20])
