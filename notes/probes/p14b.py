import sys; sys.path.insert(0,"/tmp/scr/repo")
import warnings, numpy as np, verde as vd
warnings.simplefilter("ignore")
rng=np.random.default_rng(8); bad=[]; cov_checked=0
for t in range(600):
    npts=int(rng.integers(5,80))
    if rng.random()<0.5:
        e=rng.integers(0,41,npts)/4.0; n=rng.integers(0,41,npts)/4.0; lattice=True
    else:
        e=rng.uniform(0,10,npts); n=rng.uniform(0,10,npts); lattice=False
    region=(e.min(),e.max(),n.min(),n.max()) if rng.random()<0.5 else (0,10,0,10)
    ms=min(region[1]-region[0],region[3]-region[2])
    if ms<=0.5: continue
    size=(rng.integers(1,int(ms*4)+1)/4.0) if lattice else rng.uniform(0.2,ms)
    if rng.random()<0.5: kw=dict(spacing=(rng.integers(1,12)/4.0 if lattice else rng.uniform(0.2,3)),adjust=str(rng.choice(["spacing","region"])))
    else: kw=dict(shape=(int(rng.integers(2,6)),int(rng.integers(2,6))))
    centers,idx=vd.rolling_window((e,n),size=size,region=region,**kw)
    ce=centers[0][0,:]; cn=centers[1][:,0]
    # expected centers
    stepE=ce[1]-ce[0] if len(ce)>1 else 0; stepN=cn[1]-cn[0] if len(cn)>1 else 0
    tol=1e-9*size
    sel=np.zeros(npts,bool)
    for i in np.ndindex(centers[0].shape):
        de=np.abs(e-centers[0][i]); dn=np.abs(n-centers[1][i])
        must=(de<size/2-tol)&(dn<size/2-tol); mustnot=(de>size/2+tol)|(dn>size/2+tol)
        got=np.zeros(npts,bool); got[idx[i][0]]=True
        if (must&~got).any() or (mustnot&got).any(): bad.append(("member",lattice,size,kw)); break
        sel|=got
    # coverage
    last_e=ce[-1]+size/2; last_n=cn[-1]+size/2
    if stepE<=size+1e-12 and stepN<=size+1e-12 and kw.get("adjust")!="region":
        cov_checked+=1
        inreg=(e>region[0]+tol)&(e<region[1]-tol)&(n>region[2]+tol)&(n<region[3]-tol)
        # exempt points near seams
        seamE=np.min(np.abs(e[:,None]-(np.concatenate([ce-size/2,ce+size/2]))[None,:]),axis=1)>tol
        seamN=np.min(np.abs(n[:,None]-(np.concatenate([cn-size/2,cn+size/2]))[None,:]),axis=1)>tol
        need=inreg&seamE&seamN
        if (need&~sel).any(): bad.append(("coverage",lattice,size,kw,region,float(stepE),float(stepN)))
    # expanding
    c=(rng.uniform(0,10),rng.uniform(0,10)); sizes=rng.uniform(0.1,12,4).tolist()
    ix=vd.expanding_window((e,n),c,sizes)
    sets=[set(i[0].tolist()) for i in ix]
    for s_,st in zip(sizes,sets):
        exp=set(np.where((np.abs(e-c[0])<=s_/2)&(np.abs(n-c[1])<=s_/2))[0].tolist())
        if exp!=st: bad.append(("expanding",))
    o=np.argsort(sizes)
    for a,b in zip(o[:-1],o[1:]):
        if not sets[a]<=sets[b]: bad.append(("nested",))
print(cov_checked,len(bad),bad[:6])
