import warnings, numpy as np, verde as vd
from sklearn.base import clone
warnings.simplefilter("ignore")
ests=[vd.Spline(), vd.Spline(damping=1e-3,mindist=1e-3), vd.SplineCV(dampings=[1e-3,1e-1]), vd.Trend(2), vd.KNeighbors(2), vd.Linear(), vd.Cubic(rescale=True), vd.VectorSpline2D(mindist=1), vd.Vector([vd.Trend(1),vd.Spline()]), vd.Chain([("t",vd.Trend(1)),("s",vd.Spline())]), vd.BlockReduce(np.mean,spacing=1), vd.BlockMean(spacing=1), vd.BlockKFold(spacing=1), vd.BlockShuffleSplit(spacing=1), vd.synthetic.CheckerBoard(), vd.ScipyGridder("linear")]
q=(np.array([1.,2.]),np.array([1.,2.]))
for e in ests:
    try: c=clone(e); ok="clone ok"
    except Exception as ex: ok="clone EXC "+type(ex).__name__+str(ex)[:60]
    nf=""
    if hasattr(e,"predict") and not isinstance(e,vd.synthetic.CheckerBoard):
        try: e.predict(q); nf="PREDICT-UNFITTED-NO-ERROR"
        except Exception as ex: nf="unfitted->"+type(ex).__name__
    print(type(e).__name__, ok, nf)
