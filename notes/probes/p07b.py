import sys; sys.path.insert(0,"/tmp/scr/repo")
import warnings, numpy as np, verde as vd
from fractions import Fraction as F
warnings.simplefilter("ignore")
rng=np.random.default_rng(55); bad=[]; ties=0
def ref_line(a,b,h,adjust,pix):
    A,B,H=F(a),F(b),F(h); ratio=(B-A)/H; fl=ratio.numerator//ratio.denominator; fr=ratio-fl
    if abs(fr-F(1,2))<F(1,10**9): c={fl,fl+1}
    else: c={fl if fr<F(1,2) else fl+1}
    return {max(x,1) for x in c}
for t in range(3000):
    mag=10**rng.uniform(-3,7); a=rng.uniform(-1,1)*mag; ext=10**rng.uniform(-3,4)*rng.choice([1,1,1,0]) ; b=a+ext
    k=rng.integers(1,200); h=float(ext/k*rng.choice([1,1.0000001,0.97,1.3,2/3.,2.0,0.5])) if ext>0 else 10**rng.uniform(-2,2)
    if rng.random()<0.1: h=ext*rng.uniform(1,5) if ext>0 else h
    adjust=str(rng.choice(["spacing","region"])); pix=bool(rng.integers(0,2))
    v=vd.line_coordinates(a,b,spacing=h,adjust=adjust,pixel_register=pix)
    cands=ref_line(a,b,h,adjust,pix)
    nint=len(v) if pix else len(v)-1
    if nint not in cands: bad.append(("n",a,b,h,nint,cands)); continue
    if len(cands)>1: ties+=1
    A,B,H=F(a),F(b),F(h)
    step=(B-A)/nint if adjust=="spacing" else H
    exp=[A+step*i+(step/2 if pix else 0) for i in range(nint+(0 if pix else 1))]
    tol=4*2.2e-16*max(abs(a),abs(b),abs(float(exp[-1])),1e-300)
    err=max(abs(F(float(x))-y) for x,y in zip(v,exp))
    if err>tol: bad.append(("val",a,b,h,adjust,pix,float(err),tol))
    if adjust=="spacing" and not pix and (v[0]!=a or v[-1]!=b): bad.append(("ends",a,b,h))
# grid_coordinates ordering
for t in range(300):
    w,s=rng.uniform(-100,100,2); e=w+rng.uniform(1,50); n=s+rng.uniform(1,50)
    shape=(int(rng.integers(1,9)),int(rng.integers(1,9)))
    E,N=vd.grid_coordinates((w,e,s,n),shape=shape)
    if E.shape!=shape or not (E==E[0:1,:]).all() or not (N==N[:,0:1]).all() or E[0,0]!=w or N[0,0]!=s: bad.append(("grid",shape))
    e1,n1=vd.grid_coordinates((w,e,s,n),shape=shape,meshgrid=False)
    if not (np.array_equal(e1,E[0]) and np.array_equal(n1,N[:,0])): bad.append(("meshgrid False",))
    sp=vd.coordinates.shape_to_spacing((w,e,s,n),shape) if min(shape)>1 else None
    if sp:
        E2,N2=vd.grid_coordinates((w,e,s,n),spacing=sp)
        if E2.shape!=shape: bad.append(("shape_to_spacing",shape,E2.shape))
print(len(bad),ties,bad[:5])
