import warnings, numpy as np, verde as vd
warnings.simplefilter("ignore")
rng=np.random.default_rng(23)
worst={}
for t in range(300):
    n=int(rng.integers(4,30)); scale=10**rng.uniform(-2,6); off=rng.uniform(-1e3,1e3)*scale*rng.choice([0,1])
    asp=10**rng.uniform(-1,1)
    e=rng.uniform(0,1,n)*scale+off; no=rng.uniform(0,1,n)*scale*asp+off
    d=rng.normal(size=n)*10**rng.uniform(-3,3)
    perm=rng.permutation(n)
    qe=rng.uniform(0.2,0.8,10)*scale+off; qn=rng.uniform(0.2,0.8,10)*scale*asp+off
    for name,mk in dict(lin=lambda:vd.Linear(), linr=lambda:vd.Linear(rescale=True), cub=lambda:vd.Cubic(), cubr=lambda:vd.Cubic(rescale=True)).items():
        try:
            a=mk().fit((e,no),d); b=mk().fit((e[perm],no[perm]),d[perm])
        except Exception as ex:
            worst.setdefault(name+"_EXC",[]).append((type(ex).__name__,scale,off/scale if scale else 0)); continue
        pa=a.predict((qe,qn)); pb=b.predict((qe,qn))
        ok=~(np.isnan(pa)|np.isnan(pb))
        if (np.isnan(pa)!=np.isnan(pb)).any(): worst.setdefault(name+"_nanmismatch",[]).append(t)
        if ok.any():
            r=np.abs(pa-pb)[ok].max()/np.abs(d).max()
            worst[name+"_perm"]=max(worst.get(name+"_perm",0),r)
        ex=np.abs(a.predict((e,no))-d)
        if np.isnan(ex).any(): worst.setdefault(name+"_nan_at_data",[]).append((scale,off/scale))
        else: worst[name+"_exact"]=max(worst.get(name+"_exact",0),ex.max()/np.abs(d).max())
for k,v in worst.items(): print(k, v if not isinstance(v,list) else (len(v), v[:5]))
