import warnings, numpy as np, verde as vd, pandas as pd
warnings.simplefilter("ignore")
rng=np.random.default_rng(43); n=24
e=rng.uniform(0,10,n); no=rng.uniform(0,10,n); d=rng.normal(size=n); d2=rng.normal(size=n); w=rng.uniform(.5,2,n)
q=(rng.uniform(2,8,6),rng.uniform(2,8,6))
def mk():
    return dict(spline=vd.Spline(), splined=vd.Spline(damping=1e-3), trend=vd.Trend(2), knn=vd.KNeighbors(3), lin=vd.Linear(), cub=vd.Cubic(rescale=True),
        vs=vd.VectorSpline2D(mindist=1,damping=1e-3), vec=vd.Vector([vd.Trend(1), vd.Spline()]), chain=vd.Chain([("t",vd.Trend(1)),("s",vd.Spline())]),
        chainb=vd.Chain([("b",vd.BlockReduce(np.mean,spacing=2.5)),("s",vd.Spline())]), splinecv=None)
def variants(a):
    big=np.empty(2*n); big[::2]=a
    return dict(base=a, two=a.reshape(4,6), F=np.asfortranarray(a.reshape(4,6)), strided=big[::2], series=pd.Series(a), twoT=a.reshape(6,4).T.copy().T)
def flat(p): return np.concatenate([np.ravel(x) for x in (p if isinstance(p,tuple) else (p,))])
for name in mk():
    if name=="splinecv": continue
    vec = name in ("vs","vec")
    base=None
    for vn in ["base","two","F","strided","series"]:
        g=mk()[name]
        ce,cn,cd,cd2,cw=[variants(x)[vn] for x in (e,no,d,d2,w)]
        try:
            g.fit((ce,cn),(cd,cd2) if vec else cd, (cw,cw) if vec else cw)
            p=flat(g.predict(q))
            qq=(q[0].reshape(2,3),q[1].reshape(2,3)); p2=g.predict(qq)
            shp=[x.shape for x in (p2 if isinstance(p2,tuple) else (p2,))]
            if base is None: base=p
            print(name,vn,"maxdiff",np.abs(p-base).max(), shp if vn=="base" else "")
        except Exception as ex:
            print(name,vn,"EXC",type(ex).__name__,str(ex)[:90])
