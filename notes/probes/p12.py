import warnings, numpy as np, verde as vd, sys
warnings.simplefilter("ignore")
from sklearn.base import BaseEstimator, RegressorMixin
bu = sys.modules["verde.base.utils"]
class Dummy2(BaseEstimator):
    def __init__(self, predicted=None): self._predicted = predicted
    def predict(self,*a,**k): return self._predicted
    def fit(self,*a,**k): return self
bu.DummyEstimator = Dummy2
rng = np.random.default_rng(0)
e = rng.uniform(0,10,30); n = rng.uniform(0,10,30); d = 1+2*e-n+rng.normal(size=30); w = rng.uniform(0.5,2,30)
t = vd.Trend(1).fit((e,n), d)
from sklearn.metrics import r2_score, mean_squared_error
print(t.score((e,n), d, w), r2_score(d, t.predict((e,n)), sample_weight=w))
print(vd.cross_val_score(vd.Trend(1), (e,n), d, weights=w))
print(vd.cross_val_score(vd.Trend(1), (e,n), d, weights=w, scoring="neg_mean_squared_error"))
s = vd.cross_val_score(vd.Trend(1), (e,n), d, delayed=True)
import dask; print(dask.compute(*s))
sc = vd.SplineCV(dampings=[1e-5,1e-2,10]).fit((e,n), d)
print(sc.scores_, sc.damping_)
