import sys; sys.path.insert(0,"/tmp/scr/repo")
import warnings, numpy as np, verde as vd
warnings.simplefilter("ignore")
rng=np.random.default_rng(10); bad=[]
def f(e,n): return 1000+3*e-7*n+0.01*e*n+0.001*e**2
class Asym(vd.base.BaseGridder):
    def predict(self, coordinates):
        e,n=coordinates[:2]; return f(np.asarray(e,float),np.asarray(n,float))
for t in range(300):
    p1=(rng.uniform(-50,50),rng.uniform(-50,50)); p2=(rng.uniform(-50,50),rng.uniform(-50,50)); size=int(rng.integers(2,30))
    kind=rng.integers(0,3)
    if kind==0: proj=None
    elif kind==1:
        a,b,c,d=rng.uniform(0.5,5),rng.uniform(-10,10),-rng.uniform(0.5,5),rng.uniform(-10,10)
        def proj(x,y,inverse=False):
            if inverse: return ((x-b)/a,(y-d)/c)
            return (a*x+b,c*y+d)
    else:
        def proj(x,y,inverse=False):
            if inverse: return (np.cbrt(x),np.cbrt(y))
            return (np.asarray(x)**3,np.asarray(y)**3)
    extra={} if rng.random()<0.5 else dict(extra_coords=[7.0])
    tb=Asym().profile(p1,p2,size,projection=proj,**extra)
    q1=p1 if proj is None else proj(*p1); q2=p2 if proj is None else proj(*p2)
    tt=np.linspace(0,1,size)
    pe=q1[0]+tt*(q2[0]-q1[0]); pn=q1[1]+tt*(q2[1]-q1[1])
    dist=tt*np.hypot(q2[0]-q1[0],q2[1]-q1[1])
    be,bn=(pe,pn) if proj is None else proj(pe,pn,inverse=True)
    sc=max(1,np.abs(pe).max(),np.abs(pn).max())
    ok=len(tb)==size and np.allclose(tb.distance,dist,rtol=1e-12,atol=1e-12*sc) and np.allclose(tb.scalars,f(pe,pn),rtol=1e-9) \
       and np.allclose(tb.easting,be,rtol=1e-9,atol=1e-9*sc) and np.allclose(tb.northing,bn,rtol=1e-9,atol=1e-9*sc)
    cols=list(tb.columns)
    expcols=["northing","easting","distance"]+(["extra_coord"] if extra else [])+["scalars"]
    if not ok or cols!=expcols: bad.append((kind,cols,size))
    # scatter
    region=(p1[0],p1[0]+5,p1[1],p1[1]+3); seed=int(rng.integers(0,1000))
    s1=Asym().scatter(region=region,size=size,random_state=seed); s2=Asym().scatter(region=region,size=size,random_state=seed)
    ce,cn=vd.scatter_points(region,size,random_state=seed)
    if not (s1.equals(s2) and np.array_equal(s1.easting,ce) and np.array_equal(s1.northing,cn) and np.allclose(s1.scalars,f(ce,cn))): bad.append(("scatter",))
print(len(bad),bad[:5])
