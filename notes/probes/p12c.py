import sys; sys.path.insert(0,"/tmp/scr/repo")
import warnings, numpy as np, verde as vd, dask
from sklearn.model_selection import KFold
warnings.simplefilter("ignore")
rng=np.random.default_rng(77); bad=[]
for t in range(40):
    n=int(rng.integers(15,40)); e=rng.uniform(0,10,n); no=rng.uniform(0,10,n); d=np.sin(e)+0.3*no+rng.normal(size=n)*0.3
    w=rng.uniform(.3,3,n) if rng.random()<.5 else None
    damps=sorted(set(np.round(10**rng.uniform(-6,1,int(rng.integers(1,5))),8).tolist()))
    cv=KFold(n_splits=3,shuffle=True,random_state=int(rng.integers(0,99)))
    scoring=[None,"neg_mean_squared_error"][rng.integers(0,2)]
    delayed=bool(rng.integers(0,2))
    m=vd.SplineCV(dampings=damps,cv=cv,scoring=scoring,delayed=delayed).fit((e,no),d,w)
    sc=m.scores_ if not delayed else np.array(dask.compute(*m.scores_,scheduler="synchronous"))
    exp=[np.mean(vd.cross_val_score(vd.Spline(damping=dm),(e,no),d,weights=w,cv=cv,scoring=scoring)) for dm in damps]
    best=damps[int(np.argmax(exp))]
    q=(rng.uniform(1,9,5),rng.uniform(1,9,5))
    ref=vd.Spline(damping=best).fit((e,no),d,w).predict(q)
    if not np.allclose(sc,exp,rtol=1e-12) or m.damping_!=best or not np.array_equal(m.predict(q),ref) or m.mindist_!=0: bad.append((damps,sc,exp,m.damping_))
print(len(bad),bad[:3])
