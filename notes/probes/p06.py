import warnings, numpy as np, verde as vd
warnings.simplefilter("ignore")
rng=np.random.default_rng(13); bad=[]
n=40
e=rng.uniform(0,10,n); no=rng.uniform(0,10,n); d=rng.normal(size=n)+e; w=rng.uniform(0.5,2,n)
# chain trend+spline, compare with manual
ch=vd.Chain([("t",vd.Trend(1)),("s",vd.Spline(damping=1e-3))]).fit((e,no),d,w)
t=vd.Trend(1).fit((e,no),d,w); r=d-t.predict((e,no)); s=vd.Spline(damping=1e-3).fit((e,no),r,w)
q=(rng.uniform(0,10,5),rng.uniform(0,10,5))
print(np.abs(ch.predict(q)-(t.predict(q)+s.predict(q))).max())
# chain with blockreduce
ch=vd.Chain([("b",vd.BlockReduce(np.mean,spacing=2)),("t",vd.Trend(1)),("k",vd.KNeighbors())])
try:
    ch.fit((e,no),d); 
    bc,bd=vd.BlockReduce(np.mean,spacing=2).filter((e,no),d)
    t=vd.Trend(1).fit(bc,bd); k=vd.KNeighbors().fit(bc,bd-t.predict(bc))
    print(np.abs(ch.predict(q)-(t.predict(q)+k.predict(q))).max())
except Exception as ex: print("EXC",type(ex).__name__,ex)
# with weights through blockreduce (np.average)
try:
    ch=vd.Chain([("b",vd.BlockReduce(np.average,spacing=2)),("t",vd.Trend(1))]).fit((e,no),d,w)
    print("ok weights chain", ch.predict(q))
except Exception as ex: print("EXC weights through BlockReduce",type(ex).__name__,str(ex)[:100])
try:
    ch=vd.Chain([("b",vd.BlockMean(spacing=2)),("t",vd.Trend(1))]).fit((e,no),d,w)
    bc,bd,bw=vd.BlockMean(spacing=2).filter((e,no),d,w); t=vd.Trend(1).fit(bc,bd,bw)
    print("blockmean chain", np.abs(ch.predict(q)-t.predict(q)).max())
except Exception as ex: print("EXC BlockMean chain",type(ex).__name__,str(ex)[:100])
# vector
d2=rng.normal(size=n); w2=rng.uniform(0.5,2,n)
v=vd.Vector([vd.Trend(1),vd.Trend(2)]).fit((e,no),(d,d2),(w,w2))
a=vd.Trend(1).fit((e,no),d,w).predict(q); b=vd.Trend(2).fit((e,no),d2,w2).predict(q)
p=v.predict(q); print(np.abs(p[0]-a).max(), np.abs(p[1]-b).max())
# nested chain in vector, vector in chain
ch=vd.Chain([("v",vd.Vector([vd.Trend(1),vd.Trend(1)])),("vs",vd.VectorSpline2D(mindist=1,damping=1e-2))]).fit((e,no),(d,d2),(w,w2))
print([x.shape for x in ch.predict(q)])
# filter
c_,r_,w_=vd.Trend(1).filter((e.reshape(8,5),no.reshape(8,5)),d.reshape(8,5),w.reshape(8,5))
print(r_.shape, w_.shape, c_[0].shape)
