import sys; sys.path.insert(0,"/tmp/scr/repo")
import warnings, numpy as np, verde as vd
warnings.simplefilter("ignore")
rng = np.random.default_rng(0)
def gref(r):
    out = np.zeros_like(r); nz = r>0
    out[nz] = r[nz]**2*(np.log(r[nz])-1); return out
import collections
worst=collections.defaultdict(float)
for t in range(1500):
    scale=10**rng.uniform(-2,6); n=int(rng.integers(3,200)); off=rng.choice([0,1,10,100,1000])*scale*rng.choice([-1,1])
    e = rng.uniform(0,1,n)*scale + off; no = rng.uniform(0,1,n)*scale*10**rng.uniform(-1,1) + off
    d = rng.normal(size=n)
    J = gref(np.hypot(e[:,None]-e[None,:], no[:,None]-no[None,:]))
    s = J.std(axis=0); Js = J/s
    sv = np.linalg.svd(Js, compute_uv=False); cond = sv[0]/sv[-1]
    sp = vd.Spline().fit((e,no), d)
    err = np.abs(sp.predict((e,no))-d).max()
    b=int(np.floor(np.log10(cond)))
    worst[b]=max(worst[b], err/(cond*2.2e-16*np.abs(d).max()))
for b in sorted(worst): print("cond 1e%d"%b, "worst err/(cond eps |d|) = %.3g"%worst[b])
