import warnings, numpy as np, verde as vd
warnings.simplefilter("ignore")
rng=np.random.default_rng(3)
bad=[];cnt=0;cover_bad=0
for t in range(400):
    # dyadic lattice points in [0,8]x[0,8] with step 1/4
    npts = rng.integers(1,60)
    e = rng.integers(0,33,npts)/4.0 + 16*rng.integers(-2,3)
    n = rng.integers(0,33,npts)/4.0 - 8*rng.integers(-2,3)
    shape2d = rng.random()<0.3 and npts%2==0
    if shape2d: e=e.reshape(2,-1); n=n.reshape(2,-1)
    region = (e.min()-rng.integers(0,3)/4, e.max()+rng.integers(0,3)/4, n.min()-rng.integers(0,3)/4, n.max()+rng.integers(0,3)/4)
    minside = min(region[1]-region[0], region[3]-region[2])
    if minside<=0: continue
    size = rng.integers(1, int(minside*4)+1)/4.0
    if rng.random()<0.5:
        kw=dict(spacing=rng.integers(1,12)/4.0, adjust=rng.choice(["spacing","region"]))
    else:
        kw=dict(shape=(int(rng.integers(1,6)),int(rng.integers(1,6))))
    try:
        centers, idx = vd.rolling_window((e,n), size=size, region=region, **kw)
    except Exception as ex:
        bad.append(("EXC",str(ex)[:60],size,region,kw)); continue
    cnt+=1
    sel_any = np.zeros(e.shape,bool)
    for i in np.ndindex(centers[0].shape):
        ce,cn = centers[0][i], centers[1][i]
        exp = (np.abs(e-ce)<=size/2)&(np.abs(n-cn)<=size/2)
        got = np.zeros(e.shape,bool); got[idx[i]]=True
        if len(idx[i])!=e.ndim: bad.append(("ndim",)); 
        if not np.array_equal(exp,got):
            bad.append(("member",size,region,kw,ce,cn, np.argwhere(exp!=got)[:3].tolist())); break
        sel_any|=got
print(cnt,len(bad))
for b in bad[:10]: print(b)
