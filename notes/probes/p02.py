import warnings, numpy as np, verde as vd
warnings.simplefilter("ignore")
rng = np.random.default_rng(1)
def g(r):
    out = np.zeros_like(r); nz = r>0
    out[nz] = r[nz]**2*(np.log(r[nz])-1); return out
def ref_solve(J, d, w, damping):
    s = J.std(axis=0); s[s==0]=1
    Js = J/s
    if w is None: w = np.ones(len(d))
    sw = np.sqrt(w)
    A = Js*sw[:,None]; b = d*sw
    if damping is not None:
        A = np.vstack([A, np.sqrt(damping)*np.eye(J.shape[1])]); b = np.concatenate([b, np.zeros(J.shape[1])])
    p, *_ = np.linalg.lstsq(A, b, rcond=None)
    sv = np.linalg.svd(A, compute_uv=False)
    return p/s, sv[0]/sv[-1]
worst=0
for trial in range(300):
    n = rng.integers(5,40); scale = 10**rng.uniform(-2,6)
    e = rng.uniform(0,1,n)*scale; no = rng.uniform(0,1,n)*scale
    d = rng.normal(size=n)*10**rng.uniform(-3,3)
    w = rng.uniform(0.1,10,n) if rng.random()<0.7 else None
    damping = 10**rng.uniform(-8,2) if rng.random()<0.7 else None
    if rng.random()<0.5:
        m = rng.integers(2,n)
        fc = (rng.uniform(0,1,m)*scale, rng.uniform(0,1,m)*scale)
    else:
        fc = None
    sp = vd.Spline(damping=damping, force_coords=fc).fit((e,no), d, weights=w)
    fe,fn = (e,no) if fc is None else fc
    J = g(np.hypot(e[:,None]-fe[None,:], no[:,None]-fn[None,:]))
    p, cond = ref_solve(J, d, w, damping)
    q = (rng.uniform(0,1,7)*scale, rng.uniform(0,1,7)*scale)
    Jq = g(np.hypot(q[0][:,None]-fe[None,:], q[1][:,None]-fn[None,:]))
    pred_ref = Jq@p
    pred = sp.predict(q)
    err = np.abs(pred-pred_ref).max()/ (np.abs(d).max())
    r = err/(cond*2.2e-16)
    worst=max(worst,r if cond<1e5 else 0)
    if cond<1e6 and r>10: print(trial,n,scale,damping,fc is None,w is None,cond,err,r)
print("worst ratio", worst)
