import warnings, numpy as np, verde as vd, traceback
warnings.simplefilter("ignore")
e = np.array([0,1,2,3,0,1,2,3,5,7]); n = np.array([0,0,1,1,2,3,3,5,4,1]); d = np.array([1,3,2,5,4,4,7,1,0,2])
q = (np.array([0.5,1.5,2.5]), np.array([1.5,0.5,2.5]))
qi = (np.array([1,2,3]), np.array([2,1,3]))
def mk():
    return dict(spline=vd.Spline(), splined=vd.Spline(damping=1e-3), trend=vd.Trend(2), knn=vd.KNeighbors(3), lin=vd.Linear(), cub=vd.Cubic(),
        vs=vd.VectorSpline2D(mindist=1), vec=vd.Vector([vd.Trend(1), vd.Spline()]), chain=vd.Chain([("t",vd.Trend(1)),("s",vd.Spline())]))
for name in mk():
    res = {}
    for label,(ce,cn,cd) in dict(f=(e.astype(float),n.astype(float),d.astype(float)), ic=(e,n,d.astype(float)), idata=(e.astype(float),n.astype(float),d), both=(e,n,d)).items():
        g = mk()[name]
        dd = (cd, cd[::-1].copy()) if name in ("vs","vec") else cd
        try:
            g.fit((ce,cn), dd)
            for ql,qq in (("qf",q),("qi",qi)):
                try:
                    p = g.predict(qq)
                    res[label+ql] = np.concatenate([np.ravel(x) for x in (p if isinstance(p,tuple) else (p,))])
                except Exception as ex:
                    res[label+ql] = "ERR "+type(ex).__name__+": "+str(ex)[:80]
        except Exception as ex:
            res[label] = "FITERR "+type(ex).__name__+": "+str(ex)[:80]
    base = res["fqf"]
    print("==",name)
    for k,v in res.items():
        if isinstance(v,str): print("  ",k,v)
        else:
            ref = res["fqf"] if k.endswith("qf") else res.get("fqi")
            if isinstance(ref,str): print("  ",k,"ref err"); continue
            print("  ",k, "maxdiff", np.nanmax(np.abs(v-ref)), v.dtype)
