import warnings, numpy as np, verde as vd, itertools
warnings.simplefilter("ignore")
# occupancy vectors over a 1 x nb row of blocks
def pts(occ):
    e=[];n=[]
    for b,c in enumerate(occ):
        for k in range(c):
            e.append(b+0.2+0.6*(k+1)/(c+1)); n.append(0.5+0.1*((k*7)%5)/5)
    # add corner anchors to pin region: ensure region = [0, nb] x [0,1]
    return np.array(e), np.array(n)
fails = {}
cnt=0
for nb in range(2,6):
    for occ in itertools.product(range(0,5), repeat=nb):
        if occ[0]==0 or occ[-1]==0: continue  # keep region pinned by first/last block... approx
        e,n = pts(occ)
        # pin region exactly with points at block interiors? use explicit: add points at e=0.0.. skip
        X = np.column_stack([e,n])
        # blocks via shape=(1,nb) on bounding region: not exactly the unit blocks but fine; get labels from block_split
        labels = vd.block_split((e,n), shape=(1,nb))[1]
        nocc = len(np.unique(labels))
        for k in range(2, nocc+1):
            for shuffle in (False, True):
                cnt+=1
                try:
                    folds = list(vd.BlockKFold(shape=(1,nb), n_splits=k, shuffle=shuffle, random_state=0).split(X))
                except Exception as ex:
                    fails.setdefault("EXC "+type(ex).__name__+str(ex)[:40],[]).append((occ,k)); continue
                allt = np.concatenate([t for _,t in folds])
                if len(folds)!=k: fails.setdefault("nfolds",[]).append((occ,k))
                if any(len(t)==0 for _,t in folds): fails.setdefault("emptyfold",[]).append((occ,k,shuffle))
                if sorted(allt.tolist())!=list(range(len(e))): fails.setdefault("notpartition",[]).append((occ,k))
                for tr,t in folds:
                    if set(labels[tr]) & set(labels[t]): fails.setdefault("blocksplit",[]).append((occ,k))
print(cnt, {k:(len(v), v[:5]) for k,v in fails.items()})
