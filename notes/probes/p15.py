import warnings, numpy as np, verde as vd, xarray as xr
warnings.simplefilter("ignore")
rng=np.random.default_rng(5)
bad=[]
for t in range(300):
    n=rng.integers(2,40); m=rng.integers(1,30)
    e=rng.uniform(-5,5,n); no=rng.uniform(-5,5,n); d=rng.normal(size=n)
    qe=rng.uniform(-6,6,m); qn=rng.uniform(-6,6,m)
    k=int(rng.integers(1,n+1)); red=[np.mean,np.median,np.min,np.max][rng.integers(0,4)]
    D=np.hypot(qe[:,None]-e[None,:], qn[:,None]-no[None,:])
    order=np.argsort(D,axis=1)[:,:k]
    exp=red(d[order],axis=1)
    got=vd.KNeighbors(k=k,reduction=red).fit((e,no),d).predict((qe,qn))
    if not np.allclose(exp,got): bad.append(("knn",k,n))
    # median distance
    if n>2:
        kk=int(rng.integers(1,n))
        DD=np.hypot(e[:,None]-e[None,:], no[:,None]-no[None,:]); np.fill_diagonal(DD,np.inf)
        exp=np.median(np.sort(DD,axis=1)[:,:kk],axis=1)
        got=vd.median_distance((e,no),k_nearest=kk)
        if not np.allclose(exp,got): bad.append(("meddist",kk,n))
    md=rng.uniform(0.1,5)
    exp=D.min(axis=1)<=md
    got=vd.distance_mask((e,no),md,coordinates=(qe,qn))
    if not np.array_equal(exp,got): bad.append(("dmask",))
    # grid form
    ge=np.sort(rng.uniform(-6,6,5)); gn=np.sort(rng.uniform(-6,6,3))
    grid=xr.Dataset({"a":(("northing","easting"),rng.normal(size=(3,5)))},coords={"easting":ge,"northing":gn})
    gm=vd.distance_mask((e,no),md,grid=grid)
    ME,MN=np.meshgrid(ge,gn)
    am=vd.distance_mask((e,no),md,coordinates=(ME,MN))
    if not np.array_equal(~np.isnan(gm.a.values), am): bad.append(("gridmask",))
print(len(bad),bad[:10])
