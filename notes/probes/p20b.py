import warnings, numpy as np, verde as vd, xarray as xr, io
warnings.simplefilter("ignore")
rng=np.random.default_rng(37)
n=30
def fresh(ro):
    e=rng.uniform(0,10,n); no=rng.uniform(0,10,n); d=rng.normal(size=n); d2=rng.normal(size=n); w=rng.uniform(0.5,2,n); w2=rng.uniform(0.5,2,n); x=rng.normal(size=n)
    arrs=dict(e=e,no=no,d=d,d2=d2,w=w,w2=w2,x=x)
    if ro:
        for a in arrs.values(): a.setflags(write=False)
    return arrs
calls={
 "Spline.fit/predict": lambda a: vd.Spline().fit((a["e"],a["no"],a["x"]),a["d"]).predict((a["e"],a["no"])),
 "Spline damped weights": lambda a: vd.Spline(damping=1e-3).fit((a["e"],a["no"]),a["d"],a["w"]).predict((a["e"],a["no"])),
 "Spline force_coords": lambda a: vd.Spline(force_coords=(a["e"][:5],a["no"][:5])).fit((a["e"],a["no"]),a["d"],a["w"]).predict((a["e"],a["no"])),
 "Trend": lambda a: vd.Trend(2).fit((a["e"],a["no"]),a["d"],a["w"]).predict((a["e"],a["no"])),
 "Trend.filter": lambda a: vd.Trend(2).filter((a["e"],a["no"]),a["d"],a["w"]),
 "VectorSpline2D": lambda a: vd.VectorSpline2D(mindist=1,damping=1e-3).fit((a["e"],a["no"]),(a["d"],a["d2"]),(a["w"],a["w2"])).predict((a["e"],a["no"])),
 "Vector": lambda a: vd.Vector([vd.Trend(1),vd.Spline()]).fit((a["e"],a["no"]),(a["d"],a["d2"]),(a["w"],a["w2"])).predict((a["e"],a["no"])),
 "KNeighbors": lambda a: vd.KNeighbors(3).fit((a["e"],a["no"]),a["d"]).predict((a["e"],a["no"])),
 "Linear": lambda a: vd.Linear().fit((a["e"],a["no"]),a["d"]).predict((a["e"],a["no"])),
 "Cubic": lambda a: vd.Cubic().fit((a["e"],a["no"]),a["d"]).predict((a["e"],a["no"])),
 "Chain": lambda a: vd.Chain([("t",vd.Trend(1)),("s",vd.Spline(damping=1e-2))]).fit((a["e"],a["no"]),a["d"],a["w"]).predict((a["e"],a["no"])),
 "Chain blockreduce": lambda a: vd.Chain([("b",vd.BlockReduce(np.mean,spacing=3)),("s",vd.Spline(damping=1e-2))]).fit((a["e"],a["no"]),a["d"]).predict((a["e"],a["no"])),
 "BlockReduce": lambda a: vd.BlockReduce(np.median,spacing=3,drop_coords=False).filter((a["e"],a["no"],a["x"]),(a["d"],a["d2"])),
 "BlockReduce weights": lambda a: vd.BlockReduce(np.average,spacing=3).filter((a["e"],a["no"]),(a["d"],a["d2"]),(a["w"],a["w2"])),
 "BlockMean": lambda a: vd.BlockMean(spacing=3).filter((a["e"],a["no"]),a["d"]),
 "BlockMean w": lambda a: vd.BlockMean(spacing=3).filter((a["e"],a["no"]),a["d"],a["w"]),
 "BlockMean unc": lambda a: vd.BlockMean(spacing=3,uncertainty=True).filter((a["e"],a["no"]),a["d"],a["w"]),
 "block_split": lambda a: vd.block_split((a["e"],a["no"]),spacing=3),
 "rolling_window": lambda a: vd.rolling_window((a["e"],a["no"]),size=3,spacing=2),
 "expanding_window": lambda a: vd.expanding_window((a["e"],a["no"]),(5,5),[1,3]),
 "inside": lambda a: vd.inside((a["e"],a["no"]),(2,8,2,8)),
 "get_region": lambda a: vd.get_region((a["e"],a["no"])),
 "longitude_continuity": lambda a: vd.longitude_continuity([a["e"]*10,a["no"]], [0,100,0,10]),
 "median_distance": lambda a: vd.median_distance((a["e"],a["no"]),k_nearest=2),
 "distance_mask": lambda a: vd.distance_mask((a["e"],a["no"]),1.0,coordinates=(a["d"],a["d2"])),
 "convexhull_mask": lambda a: vd.convexhull_mask((a["e"],a["no"]),coordinates=(a["d"],a["d2"])),
 "maxabs": lambda a: vd.maxabs(a["d"],a["d2"]),
 "variance_to_weights": lambda a: vd.variance_to_weights(a["w"]),
 "variance_to_weights nan": lambda a: vd.variance_to_weights(np.where(a["w"]>1,np.nan,a["w"]) if False else a["nanv"]),
 "train_test_split": lambda a: vd.train_test_split((a["e"],a["no"]),(a["d"],a["d2"]),(a["w"],a["w2"]),random_state=0),
 "train_test_split block": lambda a: vd.train_test_split((a["e"],a["no"]),a["d"],random_state=0,spacing=3),
 "BlockKFold": lambda a: list(vd.BlockKFold(spacing=3,n_splits=3).split(np.column_stack([a["e"],a["no"]]))),
 "make_xarray_grid": lambda a: vd.make_xarray_grid((a["e"][:5],a["no"][:6]),a["d"].reshape(6,5),"a"),
 "least_squares": lambda a: vd.base.least_squares(a["jac"],a["d"],a["w"],damping=1e-3,copy_jacobian=True),
}
for ro in (False,True):
    print("== read-only" if ro else "== writable")
    for name,fn in calls.items():
        a=fresh(ro)
        nanv=a["w"].copy(); nanv[::3]=np.nan; 
        jac=rng.normal(size=(n,4))
        if ro: nanv.setflags(write=False); jac.setflags(write=False)
        a["nanv"]=nanv; a["jac"]=jac
        before={k:v.tobytes() for k,v in a.items()}
        try: fn(a)
        except Exception as ex: print("  EXC",name,type(ex).__name__,str(ex)[:70]); continue
        ch=[k for k,v in a.items() if v.tobytes()!=before[k]]
        if ch: print("  MUTATED",name,ch)
