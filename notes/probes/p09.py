import warnings, numpy as np, verde as vd
warnings.simplefilter("ignore")
rng=np.random.default_rng(19); bad=[]
for t in range(400):
    ny=int(rng.integers(1,6)); nx=int(rng.integers(1,6))
    W=rng.uniform(-100,100); S=rng.uniform(-100,100); dx=rng.uniform(0.5,10); dy=rng.uniform(0.5,10)
    region=(W,W+nx*dx,S,S+ny*dy)
    n=int(rng.integers(1,60))
    bi=rng.integers(0,ny,n); bj=rng.integers(0,nx,n)
    fe=rng.uniform(0.02,0.98,n); fn=rng.uniform(0.02,0.98,n)
    e=W+(bj+fe)*dx; no=S+(bi+fn)*dy
    lab=bi*nx+bj
    mode=rng.integers(0,3)
    if mode==0: kw=dict(shape=(ny,nx))
    elif mode==1: kw=dict(spacing=(dy,dx))
    else: kw=dict(spacing=(dy*rng.uniform(0.9,1.1),dx*rng.uniform(0.9,1.1)))  # adjusted to region -> same counts
    bc,labels=vd.block_split((e,no),region=region,**kw)
    if not np.array_equal(labels,lab): bad.append(("labels",kw,region)); continue
    ce=W+(np.arange(nx)+0.5)*dx; cn=S+(np.arange(ny)+0.5)*dy
    CE,CN=np.meshgrid(ce,cn)
    if not (np.allclose(bc[0],CE.ravel()) and np.allclose(bc[1],CN.ravel())): bad.append(("centers",))
    # BlockReduce
    ncomp=int(rng.integers(1,4)); data=tuple(rng.normal(size=n) for _ in range(ncomp))
    red=[np.mean,np.median,np.sum,np.min][rng.integers(0,4)]
    cc=bool(rng.integers(0,2))
    extra=rng.normal(size=n); dc=bool(rng.integers(0,2))
    out=vd.BlockReduce(red,region=region,center_coordinates=cc,drop_coords=dc,**kw).filter((e,no,extra),data if ncomp>1 else data[0])
    coords,vals=out
    if ncomp==1: vals=(vals,)
    u=np.unique(lab)
    for c in range(ncomp):
        exp=np.array([red(data[c][lab==b]) for b in u])
        if not np.allclose(vals[c],exp): bad.append(("vals",red.__name__))
    if cc: expc=(CE.ravel()[u],CN.ravel()[u])
    else: expc=(np.array([red(e[lab==b]) for b in u]),np.array([red(no[lab==b]) for b in u]))
    if not (np.allclose(coords[0],expc[0]) and np.allclose(coords[1],expc[1])): bad.append(("coords",cc))
    if dc and len(coords)!=2: bad.append(("drop",))
    if not dc:
        if len(coords)!=3 or not np.allclose(coords[2],[red(extra[lab==b]) for b in u]): bad.append(("extra",))
    # weighted average
    w=tuple(rng.uniform(0.1,5,n) for _ in range(ncomp))
    coords,vals=vd.BlockReduce(np.average,region=region,**kw).filter((e,no),data if ncomp>1 else data[0],w if ncomp>1 else w[0])
    if ncomp==1: vals=(vals,)
    for c in range(ncomp):
        exp=np.array([np.average(data[c][lab==b],weights=w[c][lab==b]) for b in u])
        if not np.allclose(vals[c],exp): bad.append(("wvals",))
print(len(bad),bad[:8])
