import sys; sys.path.insert(0,"/tmp/scr/repo")
import warnings, numpy as np, verde as vd, itertools
def pts(occ):
    e=[];n=[]
    for b,c in enumerate(occ):
        for k in range(c):
            e.append(b+0.2+0.6*(k+1)/(c+1)); n.append(0.5+0.1*((k*7)%5)/5)
    return np.array(e), np.array(n)
fails={}; cnt=0; warned=0
for nb in range(2,7):
    for occ in itertools.product(range(0,5), repeat=nb):
        if sum(1 for c in occ if c)<2: continue
        e,n = pts(occ)
        region=(0,nb,0,1)
        X=np.column_stack([e,n])
        # region inferred from data in BlockKFold -> labels differ from construction; use block_split labels of verde for block integrity, and own occupancy for balance
        labels = vd.block_split((e,n), shape=(1,nb))[1]
        sizes=np.bincount(labels)[np.unique(labels)]
        nocc=len(sizes)
        for k in range(2,nocc+1):
          for shuffle in (False,True):
            for balance in (True,False):
                cnt+=1
                with warnings.catch_warnings(record=True) as wl:
                    warnings.simplefilter("always")
                    folds=list(vd.BlockKFold(shape=(1,nb),n_splits=k,shuffle=shuffle,random_state=0,balance=balance).split(X))
                w=any("Could not balance" in str(x.message) for x in wl)
                warned+=w
                tests=[t for _,t in folds]
                if len(folds)!=k or any(len(t)==0 for t in tests): fails.setdefault("empty",[]).append((occ,k,shuffle,balance))
                allt=np.concatenate(tests)
                if sorted(allt.tolist())!=list(range(len(e))): fails.setdefault("part",[]).append((occ,k))
                for tr,t in folds:
                    if set(labels[tr])&set(labels[t]): fails.setdefault("blk",[]).append((occ,k))
                fs=np.array([len(t) for t in tests]); fb=np.array([len(set(labels[t])) for t in tests])
                if balance and not w:
                    if np.abs(fs-len(e)/k).max() > sizes.max()+k: fails.setdefault("balance",[]).append((occ,k,fs.tolist()))
                else:
                    if fb.max()-fb.min()>1: fails.setdefault("blockcount",[]).append((occ,k,fb.tolist()))
print(cnt,warned,{k:(len(v),v[:5]) for k,v in fails.items()})
