import warnings, numpy as np, verde as vd
warnings.simplefilter("ignore")
v = np.array([0, np.nan, 2.0, 0.5]); v0=v.copy()
w = vd.variance_to_weights(v); print(w, v, "modified" if not np.array_equal(v,v0,equal_nan=True) else "ok")
v.setflags(write=False)
v = np.array([0, np.nan, 2.0, 0.5]); v.setflags(write=False)
try: print(vd.variance_to_weights(v))
except Exception as ex: print("EXC", ex)
# BlockMean no weights
rng = np.random.default_rng(0)
e = rng.uniform(0,10,50); n = rng.uniform(0,10,50); d = rng.normal(size=50)
try:
    print(vd.BlockMean(spacing=5).filter((e,n), d))
except Exception as ex: print("EXC BlockMean", type(ex).__name__, ex)
try:
    print(vd.BlockMean(spacing=5).filter((e,n), d, weights=np.ones(50))[2])
except Exception as ex: print("EXC BlockMean w", type(ex).__name__, ex)
try:
    print(vd.BlockMean(spacing=5, uncertainty=True).filter((e,n), d, weights=np.ones(50))[2])
except Exception as ex: print("EXC BlockMean unc", type(ex).__name__, ex)
try:
    print(vd.BlockReduce(np.median, spacing=5).filter((e,n), d))
    print(vd.BlockReduce(np.average, spacing=5).filter((e,n), (d,d*2), weights=(np.ones(50), rng.uniform(size=50))))
except Exception as ex: print("EXC BlockReduce", type(ex).__name__, ex)
