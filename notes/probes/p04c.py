import warnings, numpy as np, verde as vd
warnings.simplefilter("ignore")
rng=np.random.default_rng(31)
for scale in [1e-2,1,1e2,1e4,1e6]:
  for resc in (False,True):
    worst=0; worst_in=0
    for t in range(150):
        n=int(rng.integers(4,30))
        e=rng.uniform(0,1,n)*scale; no=rng.uniform(0,1,n)*scale
        d=rng.normal(size=n)
        perm=rng.permutation(n)
        qe=rng.uniform(0.1,0.9,20)*scale; qn=rng.uniform(0.1,0.9,20)*scale
        a=vd.Cubic(rescale=resc).fit((e,no),d); b=vd.Cubic(rescale=resc).fit((e[perm],no[perm]),d[perm])
        pa=a.predict((qe,qn)); pb=b.predict((qe,qn)); ok=~(np.isnan(pa)|np.isnan(pb))
        if ok.any(): worst=max(worst,np.abs(pa-pb)[ok].max()/np.abs(d).max())
    print(scale,resc,worst)
