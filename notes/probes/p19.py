import warnings, numpy as np, verde as vd, io
warnings.simplefilter("ignore")
rng=np.random.default_rng(7); bad=[]
BL=1.70141e38
for t in range(500):
    nr=int(rng.integers(2,7)); nc=int(rng.integers(2,7))
    vals=rng.normal(size=(nr,nc))*10**rng.uniform(-3,30)
    if rng.random()<0.3: vals=np.round(vals)
    blank=rng.random((nr,nc))<rng.choice([0,0.2,0.6])
    if blank.all(): blank[0,0]=False
    good=vals[~blank]
    zmin,zmax=good.min(),good.max()
    w=rng.uniform(-1e3,1e3); e=w+rng.uniform(0.1,1e3); s=rng.uniform(-1e3,1e3); n=s+rng.uniform(0.1,1e3)
    def fmt(x): 
        return [repr(float(x)), "%.17g"%x, "%.17e"%x, "%+.17E"%x][rng.integers(0,4)]
    lines=["DSAA", f"{nr} {nc}", f"{fmt(s)} {fmt(n)}", f"{fmt(w)}   {fmt(e)}", f"{fmt(zmin)} {fmt(zmax)}"]
    for i in range(nr):
        toks=[("1.70141e38" if blank[i,j] else fmt(vals[i,j])) for j in range(nc)]
        lines.append(("  " if rng.random()<0.5 else "")+ ("\t" if rng.random()<0.2 else " ").join(toks)+("  " if rng.random()<0.5 else ""))
    text="\n".join(lines)+"\n"
    dtype=["float64","float32"][rng.integers(0,2)] if np.abs(vals).max()<1e30 else "float64"
    try:
        g=vd.load_surfer(io.StringIO(text),dtype=dtype)
    except Exception as ex:
        bad.append(("EXC",type(ex).__name__,str(ex)[:100],dtype)); continue
    exp=np.where(blank,np.nan,vals)
    if g.shape!=(nr,nc) or g.dims!=("northing","easting"): bad.append(("shape",)); continue
    rt=1e-6 if dtype=="float32" else 1e-15
    if not np.allclose(g.values,exp.astype(dtype),rtol=rt,atol=0,equal_nan=True): bad.append(("vals",dtype,g.values,exp)); 
    if not (np.allclose(g.northing.values,np.linspace(s,n,nr)) and np.allclose(g.easting.values,np.linspace(w,e,nc))): bad.append(("coords",))
print(len(bad)); 
for b in bad[:8]: print(b)
