import warnings, numpy as np, verde as vd, xarray as xr
warnings.simplefilter("ignore")
rng=np.random.default_rng(17); bad=[]
for t in range(300):
    ny=int(rng.integers(1,6)); nx=int(rng.integers(1,6))
    E=np.sort(rng.uniform(-10,10,nx)); N=np.sort(rng.uniform(-10,10,ny))
    if rng.random()<0.3: E=E[::-1].copy()
    nv=int(rng.integers(1,5)); nx_=int(rng.integers(0,4))
    data=tuple(rng.normal(size=(ny,nx)) for _ in range(nv)); extra=tuple(rng.normal(size=(ny,nx)) for _ in range(nx_))
    names=[f"v{i}" for i in range(nv)]; en=[f"x{i}" for i in range(nx_)]
    dims=("northing","easting") if rng.random()<0.5 else ("yy","xx")
    if rng.random()<0.5: coords=(E,N)+extra
    else:
        ME,MN=np.meshgrid(E,N); coords=(ME,MN)+extra
    try:
        g=vd.make_xarray_grid(coords,data if nv>1 else data[0],names if nv>1 else names[0],dims=dims,extra_coords_names=en if nx_ else None)
    except Exception as ex: bad.append(("EXC",type(ex).__name__,str(ex)[:80],ny,nx)); continue
    for k,nm in enumerate(names):
        for i in range(ny):
            for j in range(nx):
                if g[nm].sel({dims[0]:N[i],dims[1]:E[j]}).values!=data[k][i,j]: bad.append(("val",))
    tb=vd.grid_to_table(g)
    ME,MN=np.meshgrid(E,N)
    ok=np.array_equal(tb[dims[1]].values,ME.ravel()) and np.array_equal(tb[dims[0]].values,MN.ravel())
    for k,nm in enumerate(names): ok&=np.array_equal(tb[nm].values,data[k].ravel())
    for k,nm in enumerate(en): ok&=np.array_equal(tb[nm].values,extra[k].ravel())
    if not ok or len(tb)!=ny*nx: bad.append(("table",ny,nx))
print(len(bad),bad[:8])
