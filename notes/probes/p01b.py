import warnings, numpy as np, verde as vd, inspect
warnings.simplefilter("ignore")
import sys; ls = sys.modules["verde.base.least_squares"]
from sklearn.linear_model import LinearRegression
print(LinearRegression._parameter_constraints.get("tol"))
orig = ls.LinearRegression
def LR(**kw):
    return orig(tol=np.finfo("float64").eps, **kw)
ls.LinearRegression = LR
region = (100, 500, -800, -700)
synth = vd.synthetic.CheckerBoard(region=region)
data = synth.scatter(size=1500, random_state=1)
coords = (data.easting, data.northing)
spline = vd.Spline().fit(coords, data.scalars)
print(np.abs(spline.predict(coords)-data.scalars).max(), np.abs(data.scalars).max())
