import sys; sys.path.insert(0,"/tmp/probe/deps")
import warnings, numpy as np, verde as vd, mpmath as mp
warnings.simplefilter("ignore")
mp.mp.dps=50
rng=np.random.default_rng(41)
eps=2.2e-16
worst=0; worstv=0
rs=[0.0,1e-300,1e-200,1e-100,1e-30,1e-12,1e-8,1e-3,0.5,0.99999999,1.0,1.0000001,np.e,2.718281828459045,3.0,1e3,1e8]
rs+=list(10**rng.uniform(-12,8,300))+list(np.e*(1+rng.uniform(-1e-6,1e-6,50)))+list(1+rng.uniform(-1e-6,1e-6,50))
sp=vd.Spline()
for r in rs:
    th=rng.uniform(0,2*np.pi)
    fx,fy=rng.uniform(-10,10,2)
    ox=fx+r*np.cos(th); oy=fy+r*np.sin(th)
    dx=ox-fx; dy=oy-fy  # what the code computes
    rr=mp.sqrt(mp.mpf(float(dx))**2+mp.mpf(float(dy))**2)
    g=rr**2*(mp.log(rr)-1) if rr>0 else mp.mpf(0)
    J=sp.jacobian((np.array([ox]),np.array([oy])),(np.array([fx]),np.array([fy])))[0,0]
    rf=float(rr)
    tol=eps*(rf+rf*rf*(1+abs(np.log(rf)) if rf>0 else 0))
    err=abs(mp.mpf(float(J))-g)
    ratio=float(err/tol) if tol>0 else (0 if err==0 else np.inf)
    worst=max(worst,ratio)
print("spline worst err/tol",worst)
# vector
for t in range(2000):
    r=10**rng.uniform(-12,8) if rng.random()<0.9 else 0.0
    th=rng.uniform(0,2*np.pi); fx,fy=rng.uniform(-10,10,2)
    ox=fx+r*np.cos(th); oy=fy+r*np.sin(th); dx=ox-fx; dy=oy-fy
    nu=rng.uniform(-1,1); md=10**rng.uniform(-6,4)
    vs=vd.VectorSpline2D(poisson=nu,mindist=md)
    J=vs.jacobian((np.array([ox]),np.array([oy])),(np.array([fx]),np.array([fy])))
    X=mp.mpf(float(dx)); Y=mp.mpf(float(dy)); R=mp.sqrt(X*X+Y*Y)+mp.mpf(float(md)); NU=mp.mpf(float(nu))
    ee=(3-NU)*mp.log(R)+(1+NU)*Y*Y/R**2; nn=(3-NU)*mp.log(R)+(1+NU)*X*X/R**2; ne=-(1+NU)*X*Y/R**2
    ref=np.array([[float(ee),float(ne)],[float(ne),float(nn)]])
    scale=abs(float((3-NU)*mp.log(R)))+2
    worstv=max(worstv,np.abs(J-ref).max()/(eps*scale))
print("vector worst err/(eps*scale)",worstv)
