#!/venv/bin/python
"""Single entry point: run_check.py <ID> --tier quick|thorough [--replay FILE] [--only SUB[,SUB]]

exit 0: the property held on everything explored
exit 1: a line "VIOLATION property=<ID> replay=<path>" was printed
exit 2: harness error (nothing is claimed about the property)
"""
import argparse
import os
import sys

sys.path.insert(0, os.path.dirname(os.path.abspath(__file__)))
from vlib import env  # noqa: E402


def main():
    ap = argparse.ArgumentParser()
    ap.add_argument("check")
    ap.add_argument("--tier", default=os.environ.get("VERIF_TIER", "quick"), choices=["quick", "thorough"])
    ap.add_argument("--replay")
    ap.add_argument("--only")
    ap.add_argument("--trace-shard", help=argparse.SUPPRESS)
    ap.add_argument("--trace-out", help=argparse.SUPPRESS)
    a = ap.parse_args()
    env.bootstrap()
    from vlib import runner

    try:
        if a.trace_shard:
            sys.exit(runner.trace_shard(a.check.upper(), a.trace_shard, a.trace_out))
        rc = runner.main(a.check, a.tier, replay=a.replay, only=a.only.split(",") if a.only else None)
    except SystemExit:
        raise
    except BaseException as e:  # noqa: BLE001
        import traceback

        traceback.print_exc()
        print("HARNESS-ERROR %s: %s" % (type(e).__name__, e))
        rc = 2
    sys.stdout.flush()
    sys.exit(rc)


if __name__ == "__main__":
    main()
