#!/bin/sh
# MANIFEST.setup_cmd: make sure the interpreters the checks use have what they
# need, offline, from the local wheelhouse only. Idempotent, takes seconds.
set -e
cd "$(dirname "$0")"
WH=/opt/veriftools/wheels
PY=/venv/bin/python
export PIP_NO_INDEX=1 PIP_DISABLE_PIP_VERSION_CHECK=1
$PY -c "import hypothesis" 2>/dev/null || \
    /venv/bin/pip install -q --no-index --find-links $WH hypothesis
mkdir -p .deps
PYTHONPATH=.deps $PY -c "import mpmath" 2>/dev/null || \
    /venv/bin/pip install -q --no-index --find-links $WH --target .deps mpmath
PYTHONPATH=.deps $PY -c "import atheris" 2>/dev/null || \
    /venv/bin/pip install -q --no-index --find-links $WH --target .deps atheris || \
    echo "setup: atheris not installable (C19 byte-level fuzzing falls back to the Hypothesis byte generator)"
mkdir -p evidence replays/found
echo "setup ok"
