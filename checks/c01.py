"""C01 - exact interpolators reproduce the data at the data points; a Trend of
degree N reproduces any polynomial of total degree <= N everywhere."""
import math
import warnings
from fractions import Fraction

import numpy as np
import verde as vd
from hypothesis import strategies as st

from vlib import blocks, gen, kernels
from vlib import build as vbuild
from vlib.oracles import EPS, convex_hull
from vlib.runner import Sub, Violation

PROPERTY = "C01"
RULE = ("jittered-lattice clouds of pairwise distinct points (1..40 points quick, up to 300 thorough; coordinate scale 1e-2..1e6, aspect 0.1..10, "
        "offsets 0, +-1, +-10, +-100, +-1000 times the extent; 1-D/2-D/3-D arrays; a third with exact structure: regular grids, survey lines, sorted "
        "storage), predictions at all data points, at every third one, at the last one alone (arrays and plain numbers) and twice in a row, finite data (1e-6..1e6, zeros, repeats; a 1e100 class), exact-"
        "interpolator configurations (Spline mindist none/small, VectorSpline2D Poisson in [-1,1], KNeighbors(1), Linear/Cubic rescale off/on, "
        "Chain/Vector compositions) and Trend degrees 0..4 with integer-coefficient polynomials; non-trivial = at least 4 points (Trend: more points "
        "than coefficients), non-constant data, not skipped by the conditioning rule; distinct = SHA-1 of the case")
KAPPA_MAX = 1e10
TINY = 1e-290  # absolute slack: differences in the subnormal range are not errors
ASSUMPTIONS = [
    "an absolute slack of 1e-290 is added to every tolerance (subnormal data values)",
    "least-squares interpolators: asserted when the condition number kappa of the harness-built, column-scaled Jacobian is <= 1e10, tolerance 64*kappa*eps*max|data|; larger kappa is skipped and counted",
    "Linear/Cubic: |prediction - data| <= 1e-6*max|data| and no NaN at data points; hull must be non-degenerate",
    "open known finding D9 is matched narrowly: Linear/Cubic (alone or as a chain/vector member), the symptom is NaN, and every NaN data point is a vertex of the exact convex hull",
    "clouds that SciPy's own LinearNDInterpolator refuses to triangulate (nearly flat) are outside the domain: verde forwards the points unchanged",
    "Trend: kappa of the column-scaled Vandermonde matrix <= 1e8, tolerance 64*kappa*eps*sum|c_ij||e|^i|n|^j",
]


def quiet(fn, *a, **k):
    with warnings.catch_warnings():
        warnings.simplefilter("ignore")
        return fn(*a, **k)


def scaled_cond(jac):
    s = jac.std(axis=0)
    s[s == 0] = 1.0
    sv = np.linalg.svd(jac / s, compute_uv=False)
    return float(sv[0] / sv[-1]) if sv[-1] > 0 else float("inf")


def as_arrays(cloud, shape, lay=None):
    if "xy" in cloud:  # explicit coordinates (canaries and regression replays must not depend on the generator's jitter tables)
        es, ns = cloud["xy"]
    else:
        es, ns = gen.cloud_xy(cloud)
    lay = lay or vbuild.Lay(None)
    return lay(es, shape), lay(ns, shape)


def arrays_of(case, ncomp=1):
    """coordinates and data of a case in the generated memory layouts"""
    lay = vbuild.Lay(case.get("orders"))
    e, n = as_arrays(case["cloud"], case["shape"], lay)
    d = tuple(lay(v, case["shape"]) for v in case["data"][:ncomp])
    return e, n, d


def check_subsets(est, e, n, comps, tol, what, exact=False):
    """The property holds per data point: predicting at a few of the data points (a strided subset as 1-D arrays, the last point
    alone as a one-element array and as plain numbers) must return their data values as well."""
    ef, nf = np.asarray(e, dtype="float64").ravel(), np.asarray(n, dtype="float64").ravel()
    flat = [np.asarray(c, dtype="float64").ravel() for c in comps]
    size = ef.size
    if size == 0:
        return
    # a prediction is a value: predicting again at as many other points must not change the arrays handed out before
    first = quiet(est.predict, (ef, nf))
    first = first if isinstance(first, tuple) else (first,)
    kept = [np.array(p, copy=True) for p in first]
    quiet(est.predict, (ef[::-1] * 1.0009765625 + 0.3125, nf[::-1] - 0.4375))
    for k, (p, c) in enumerate(zip(first, kept)):
        if not np.array_equal(np.asarray(p), c, equal_nan=True):
            raise Violation("%s: the prediction at the %d data points (component %d) changed its contents after predict was called again at %d other points (results of separate calls share memory)"
                            % (what, size, k, size))
    picks = [("every third point", np.arange(size)[::3]), ("the last point", np.array([size - 1]))]
    for name, idx in picks:
        forms = [(ef[idx], nf[idx])]
        if idx.size == 1:
            forms.append((float(ef[idx[0]]), float(nf[idx[0]])))
        for qe, qn in forms:
            pred = quiet(est.predict, (qe, qn))
            pred = pred if isinstance(pred, tuple) else (pred,)
            if len(pred) != len(flat):
                raise Violation("%s predicting at %s returns %d components, fitted with %d" % (what, name, len(pred), len(flat)))
            for k, (p, c) in enumerate(zip(pred, flat)):
                p = np.asarray(p, dtype="float64")
                if p.shape != np.shape(qe):
                    raise Violation("%s predicting at %s: component %d has shape %s, the query has shape %s" % (what, name, k, p.shape, np.shape(qe)))
                err = float(np.max(np.abs(p.ravel() - c[idx])))
                if not (err == 0 if exact else err <= tol):
                    raise Violation("%s reproduces its data when predicting at all %d data points, but not when predicting only at %s (%s): component %d error %.3e, tolerance %.3e"
                                    % (what, size, name, "plain numbers" if np.ndim(qe) == 0 else "%d-element arrays" % np.size(qe), k, err, tol))


def nonconstant(vals):
    return len(set(vals)) > 1


@st.composite
def cloud_cases(draw, min_n=1, ncomp=1):
    def make(tier_max):
        return gen.clouds(min_n=min_n, max_n=tier_max)

    # (a third of the clouds with exact structure: points on a regular grid, on straight survey lines, stored sorted)
    cloud = draw(gen.clouds(min_n=min_n, max_n=draw(st.sampled_from([6, 15, 40])), structures=gen.STRUCTURES))
    n = len(cloud["cells"])
    kind = draw(st.sampled_from(["unit", "int", "big", "small", "mixed", "huge"]))
    data = [draw(gen.data_values(n, kind)) for _ in range(ncomp)]
    return dict(cloud=cloud, data=data, shape=draw(st.sampled_from(blocks.shape_options(n))), orders=draw(vbuild.orders_strategy()))


def big_clouds(tier):
    top = 40 if tier == "quick" else 300
    return top


# ---------------------------------------------------------------- Spline
@st.composite
def spline_cases(draw):
    case = draw(cloud_cases())
    case["mindist"] = draw(st.sampled_from([None, None, 1e-6, 1e-3, 0.1]))
    case["weighted"] = draw(st.sampled_from([False, False, True]))
    return case


def spline_cases_tier(tier):
    if tier == "quick":
        return spline_cases()

    @st.composite
    def bigger(draw):
        cloud = draw(gen.clouds(min_n=1, max_n=draw(st.sampled_from([15, 40, 100, 300]))))
        n = len(cloud["cells"])
        return dict(cloud=cloud, data=[draw(gen.data_values(n))], shape=[n], mindist=draw(st.sampled_from([None, None, 1e-3])), weighted=draw(st.sampled_from([False, False, True])))

    return bigger()


def check_spline(case, ctx):
    e, n, (d,) = arrays_of(case)
    md = case["mindist"]
    md_abs = 0.0 if md is None else md * case["cloud"]["scale"]
    jac = kernels.spline_jacobian(e, n, e, n, md_abs)
    kappa = scaled_cond(jac)
    if not kappa <= KAPPA_MAX:
        ctx.skip("ill_conditioned")
    sp = quiet(vd.Spline) if md is None else quiet(vd.Spline, mindist=md_abs)
    d_arg = d
    if d.size and vbuild.small_hash(case, 21) % 4 == 0 and len(set(np.round(d).ravel().tolist())) > 1 and np.all(np.abs(d) < 2.0**50):
        d = np.round(d)  # readings recorded as whole numbers (counts, elevations in metres)
        d_arg = d
    if d.size and np.all(d == np.round(d)) and np.all(np.abs(d) < 2.0**53) and vbuild.small_hash(case, 20) % 2 == 0:
        d_arg = d.astype("int64")  # whole-number data handed over with an integer dtype
    stacked = vbuild.maybe_stack((np.asarray(e, dtype="float64"), np.asarray(n, dtype="float64")), vbuild.stack_flag(case))
    if case.get("weighted"):
        quiet(sp.fit, stacked, d_arg, 1.0 + (np.arange(d.size) % 5).reshape(d.shape))
    else:
        quiet(sp.fit, stacked, d_arg)
    pred = np.asarray(sp.predict(stacked))
    ctx.check(pred.shape == d.shape, "prediction shape %s, data shape %s", pred.shape, d.shape)
    scale = float(np.max(np.abs(d)))
    err = float(np.max(np.abs(pred - d))) if d.size else 0.0
    tol = 64 * kappa * EPS * scale + TINY
    if not err <= tol:
        raise Violation("Spline(mindist=%r) fitted to %d distinct points does not reproduce its data: max error %.3e, tolerance 64*kappa*eps*max|d| = %.3e (kappa %.3e, max|d| %.3e)"
                        % (md, d.size, err, tol, kappa, scale))
    check_subsets(sp, e, n, (d,), tol, "Spline(mindist=%r)" % (md,))
    ctx.label("kappa1e%d" % int(math.log10(max(kappa, 1))), "int_data" if d_arg is not d else "float_data", "mindist" if md else "nomindist", "n>=80" if d.size >= 80 else "n<80", "weighted" if case.get("weighted") else "unweighted")
    ctx.label("structure_%s" % (case["cloud"].get("structure") or "none"))
    ctx.nt(d.size >= 4 and nonconstant(case["data"][0]))


# ---------------------------------------------------------------- VectorSpline2D
@st.composite
def vector_cases(draw):
    case = draw(cloud_cases(ncomp=2))
    case["poisson"] = draw(st.one_of(st.sampled_from([-1.0, 0.0, 0.5, 1.0]), gen.finite(-1, 1)))
    case["mindist"] = draw(st.sampled_from([0.1, 0.5, 1.0, 3.0]))  # in units of the lattice spacing
    return case


def check_vector(case, ctx):
    e, n, d = arrays_of(case, 2)
    md = case["mindist"] * case["cloud"]["scale"]
    jac = kernels.vector_jacobian(e, n, e, n, md, case["poisson"])
    kappa = scaled_cond(jac)
    if not kappa <= KAPPA_MAX:
        ctx.skip("ill_conditioned")
    vs = vd.VectorSpline2D(poisson=case["poisson"], mindist=md)
    quiet(vs.fit, (e, n), d)
    pred = vs.predict((e, n))
    ctx.check(isinstance(pred, tuple) and len(pred) == 2, "prediction must be a 2-tuple")
    scale = max(float(np.max(np.abs(c))) for c in d)
    for k in range(2):
        p = np.asarray(pred[k])
        ctx.check(p.shape == d[k].shape, "component %d: prediction shape %s, data shape %s", k, p.shape, d[k].shape)
        err = float(np.max(np.abs(p - d[k])))
        tol = 64 * kappa * EPS * scale + TINY
        if not err <= tol:
            raise Violation("VectorSpline2D(poisson=%r, mindist=%r) does not reproduce component %d of its data: max error %.3e, tolerance %.3e (kappa %.3e)"
                            % (case["poisson"], md, k, err, tol, kappa))
    check_subsets(vs, e, n, d, 64 * kappa * EPS * scale + TINY, "VectorSpline2D(poisson=%r, mindist=%r)" % (case["poisson"], md))
    ctx.label("kappa1e%d" % int(math.log10(max(kappa, 1))), "structure_%s" % (case["cloud"].get("structure") or "none"))
    ctx.nt(d[0].size >= 4 and nonconstant(case["data"][0]) and nonconstant(case["data"][1]))


# ---------------------------------------------------------------- KNeighbors(k=1)
def check_knn(case, ctx):
    e, n, (d,) = arrays_of(case)
    stacked = vbuild.maybe_stack((np.asarray(e, dtype="float64"), np.asarray(n, dtype="float64")), vbuild.stack_flag(case))
    kn = vd.KNeighbors().fit(stacked, d)
    pred = np.asarray(kn.predict(stacked))
    ctx.check(pred.shape == d.shape, "prediction shape %s, data shape %s", pred.shape, d.shape)
    if not np.array_equal(pred, d):
        bad = np.argwhere(pred != d)[0]
        raise Violation("KNeighbors(k=1) at its own data point %s returns %r, the datum is %r" % (bad.tolist(), pred[tuple(bad)], d[tuple(bad)]))
    check_subsets(kn, e, n, (d,), 0.0, "KNeighbors(k=1)", exact=True)
    ctx.nt(d.size >= 4 and nonconstant(case["data"][0]))


# ---------------------------------------------------------------- Linear / Cubic
@st.composite
def scipy_cases(draw):
    case = draw(cloud_cases(min_n=3))
    case["kind"] = draw(st.sampled_from(["linear", "cubic"]))
    case["rescale"] = draw(st.booleans())
    return case


def scipy_accepts(e, n, rescale=False):
    """Precondition of the SciPy-backed gridders: SciPy itself can triangulate
    the points (Qhull refuses nearly flat clouds); verde only forwards them."""
    from scipy.interpolate import LinearNDInterpolator

    try:
        LinearNDInterpolator(np.column_stack([np.ravel(e), np.ravel(n)]), np.zeros(np.size(e)), rescale=rescale)
    except Exception:  # noqa: BLE001 - any refusal by SciPy puts the cloud outside the domain
        return False
    return True


def hull_of(e, n):
    return convex_hull([(Fraction(float(a)), Fraction(float(b))) for a, b in zip(np.ravel(e), np.ravel(n))])


def check_scipy(case, ctx):
    e, n, (d,) = arrays_of(case)
    hull = hull_of(e, n)
    if len(hull) < 3:
        ctx.skip("degenerate_hull")
    if not scipy_accepts(e, n, case["rescale"]):
        ctx.skip("scipy_cannot_triangulate")
    cls = vd.Linear if case["kind"] == "linear" else vd.Cubic
    g = cls(rescale=case["rescale"])
    g.fit((e, n), d)
    pred = np.asarray(g.predict((e, n)))
    ctx.check(pred.shape == d.shape, "prediction shape %s, data shape %s", pred.shape, d.shape)
    nan = np.isnan(pred)
    ratio = max(abs(r) for r in case["cloud"]["ratio"])
    known = False
    if nan.any():
        verts = set(hull)
        pts = [(Fraction(float(a)), Fraction(float(b))) for a, b in zip(e[nan], n[nan])]
        if all(p in verts for p in pts):
            known = True
        else:
            raise Violation("%s(rescale=%r) predicts NaN at %d of its own data points (offset/extent %g; NaN points are %s hull vertices)"
                            % (cls.__name__, case["rescale"], int(nan.sum()), ratio, "all" if all(p in verts for p in pts) else "not all"))
    scale = float(np.max(np.abs(d)))
    ok = ~nan
    err = float(np.max(np.abs(pred[ok] - d[ok]))) if ok.any() else 0.0
    if not err <= 1e-6 * scale + TINY:
        raise Violation("%s(rescale=%r) does not reproduce its data: max error %.3e, max|d| %.3e" % (cls.__name__, case["rescale"], err, scale))
    if known:
        ctx.known("D9", "%s NaN at %d hull-vertex data point(s), offset/extent %g" % (cls.__name__, int(nan.sum()), ratio))
    ctx.label(case["kind"], "rescale" if case["rescale"] else "norescale", "ratio%g" % ratio)
    ctx.nt(d.size >= 4 and nonconstant(case["data"][0]))


# ---------------------------------------------------------------- compositions
COMPOSITIONS = ["chain_trend_spline", "chain_trend_knn", "chain_trend_linear", "chain_spline_knn", "chain_knn_spline",
                "vector_spline_knn", "vector_linear_spline", "chain_vector_vectorspline", "chain_trend_cubic"]


@st.composite
def composition_cases(draw):
    case = draw(cloud_cases(min_n=3, ncomp=2))
    case["composition"] = draw(st.sampled_from(COMPOSITIONS))
    case["degree"] = draw(st.integers(0, 2))
    case["poisson"] = draw(st.sampled_from([-1.0, 0.5, 0.0]))
    return case


def check_composition(case, ctx):
    e, n, (d0, d1) = arrays_of(case, 2)
    comp = case["composition"]
    kappa = scaled_cond(kernels.spline_jacobian(e, n, e, n))
    uses_spline = "spline" in comp
    uses_scipy = "linear" in comp or "cubic" in comp
    if uses_scipy:
        if len(hull_of(e, n)) < 3:
            ctx.skip("degenerate_hull")
        if not scipy_accepts(e, n):
            ctx.skip("scipy_cannot_triangulate")
    md = case["cloud"]["scale"]
    if comp == "chain_vector_vectorspline":
        kappa = scaled_cond(kernels.vector_jacobian(e, n, e, n, md, case["poisson"]))
    if (uses_spline or comp == "chain_vector_vectorspline") and not kappa <= KAPPA_MAX:
        ctx.skip("ill_conditioned")
    deg = case["degree"]
    ncoef = (deg + 1) * (deg + 2) // 2
    if "trend" in comp:
        kt = scaled_cond(kernels.trend_jacobian(e, n, deg))
        if d0.size < ncoef or not kt <= 1e8:
            ctx.skip("trend_ill_conditioned")
    S, K, L, C, T = (lambda: quiet(vd.Spline)), (lambda: vd.KNeighbors()), (lambda: vd.Linear()), (lambda: vd.Cubic()), (lambda: vd.Trend(deg))
    vector = comp.startswith("vector") or comp == "chain_vector_vectorspline"
    if comp == "chain_trend_spline":
        est = vd.Chain([("t", T()), ("s", S())])
    elif comp == "chain_trend_knn":
        est = vd.Chain([("t", T()), ("k", K())])
    elif comp == "chain_trend_linear":
        est = vd.Chain([("t", T()), ("l", L())])
    elif comp == "chain_trend_cubic":
        est = vd.Chain([("t", T()), ("c", C())])
    elif comp == "chain_spline_knn":
        est = vd.Chain([("s", S()), ("k", K())])
    elif comp == "chain_knn_spline":
        est = vd.Chain([("k", K()), ("s", S())])
    elif comp == "vector_spline_knn":
        est = vd.Vector([S(), K()])
    elif comp == "vector_linear_spline":
        est = vd.Vector([L(), S()])
    else:
        est = vd.Chain([("v", vd.Vector([vd.Trend(deg), vd.Trend(deg)])), ("vs", vd.VectorSpline2D(poisson=case["poisson"], mindist=md))])
        kt = scaled_cond(kernels.trend_jacobian(e, n, deg))
        if d0.size < ncoef or not kt <= 1e8:
            ctx.skip("trend_ill_conditioned")
    data = (d0, d1) if vector else d0
    quiet(est.fit, (e, n), data)
    pred = est.predict((e, n))
    preds = pred if vector else (pred,)
    ctx.check(len(preds) == (2 if vector else 1), "wrong number of predicted components")
    scale = max(float(np.max(np.abs(d0))), float(np.max(np.abs(d1))) if vector else 0.0)
    tol = 256 * max(kappa, 1.0) * EPS * scale * (1 + (ncoef if "trend" in comp or "vectorspline" in comp else 0)) + TINY
    if uses_scipy:
        tol += 1e-6 * scale
    for k, (p, d) in enumerate(zip(preds, (d0, d1))):
        p = np.asarray(p)
        ctx.check(p.shape == d.shape, "prediction shape %s, data shape %s", p.shape, d.shape)
        if np.isnan(p).any():
            if uses_scipy:
                verts = set(hull_of(e, n))
                if all((Fraction(float(a)), Fraction(float(b))) in verts for a, b in zip(e[np.isnan(p)], n[np.isnan(p)])):
                    ctx.known("D9", "%s NaN at hull-vertex data point(s)" % comp)
            raise Violation("composition %s predicts NaN at its data points" % comp)
        err = float(np.max(np.abs(p - d)))
        if not err <= tol:
            raise Violation("%s fitted to %d points does not reproduce component %d of its data: max error %.3e, tolerance %.3e" % (comp, d.size, k, err, tol))
    if not uses_scipy:  # (the SciPy interpolators can return NaN at hull vertices, finding D9, which the loop above sorts out point by point)
        check_subsets(est, e, n, (d0, d1) if vector else (d0,), tol, comp)
    ctx.label(comp, "structure_%s" % (case["cloud"].get("structure") or "none"))
    ctx.nt(d0.size >= 4 and nonconstant(case["data"][0]))


# ---------------------------------------------------------------- Trend reproduces polynomials everywhere
@st.composite
def trend_cases(draw):
    deg = draw(st.integers(0, 4))
    ncoef = (deg + 1) * (deg + 2) // 2
    side = deg + 2 + draw(st.integers(0, 3))
    many = draw(st.sampled_from([0, 0, 0, 0, 0, 60, 250]))  # now and then a few hundred points (the size of the system enters some solvers' cut-offs)
    side = max(side, int(math.sqrt(many)) + 3)
    # at least N+1 distinct rows and columns: start from a diagonal, then add free cells
    base = [(k, (k * 2 + 1) % side) for k in range(side)]
    extra_n = max(0, ncoef - side) + (many or draw(st.sampled_from([0, 0, 1, 2, 3, 5, 8])))
    extra = draw(st.lists(st.tuples(st.integers(0, side - 1), st.integers(0, side - 1)), min_size=extra_n, max_size=extra_n, unique=True))
    cells = list(dict.fromkeys(base + extra))
    k = draw(st.integers(-2, 4))
    cloud = dict(cells=[list(c) for c in cells], side=side, scale=10.0 ** k, aspect=draw(st.sampled_from([1.0, 0.1, 10.0])),
                 ratio=[draw(st.sampled_from([0.0, 0.0, 1.0, -1.0, 10.0, 100.0, -1000.0])), draw(st.sampled_from([0.0, 0.0, 1.0, -10.0, 1000.0]))])
    pdeg = draw(st.sampled_from([deg, deg, draw(st.integers(0, deg))]))  # mostly a polynomial of the trend's own degree
    coefs = {}
    for (i, j) in kernels.monomials(pdeg):
        c = draw(st.sampled_from([-5, -3, -2, -1, 1, 2, 3, 5, 0, 0]))
        if c:
            coefs["%d,%d" % (i, j)] = c
    m = draw(st.integers(1, 8))
    query = [[draw(gen.finite(-0.5 * side, 1.5 * side)), draw(gen.finite(-0.5 * side, 1.5 * side))] for _ in range(m)]
    return dict(cloud=cloud, degree=deg, poly=coefs, query=query, shape=draw(st.sampled_from(blocks.shape_options(len(cells)))),
                weights=draw(st.booleans()), orders=draw(vbuild.orders_strategy()))


def poly_eval(coefs, e, n):
    """exact rational evaluation of the integer-coefficient polynomial at float points"""
    out, mag = [], []
    for x, y in zip(np.ravel(e), np.ravel(n)):
        fx, fy = Fraction(float(x)), Fraction(float(y))
        v = sum(c * fx**int(k.split(",")[0]) * fy**int(k.split(",")[1]) for k, c in coefs.items())
        m = sum(abs(c * fx**int(k.split(",")[0]) * fy**int(k.split(",")[1])) for k, c in coefs.items())
        out.append(float(v))
        mag.append(float(m))
    return np.array(out), np.array(mag)


def check_trend(case, ctx):
    lay_ = vbuild.Lay(case.get("orders"))
    e, n = as_arrays(case["cloud"], case["shape"], lay_)
    deg = case["degree"]
    ncoef = (deg + 1) * (deg + 2) // 2
    if e.size < ncoef:
        ctx.skip("fewer_points_than_coefficients")
    jac_ = kernels.trend_jacobian(e, n, deg)
    kappa = scaled_cond(jac_)
    if not kappa <= 1e8:
        # badly conditioned (large offset relative to the extent, high degree): predictions away from the data cannot be judged, but a backward
        # stable least-squares solution still reproduces data that lie in the column space, far better than the condition number suggests.
        # A solver that truncates resolvable singular values does not.
        if not kappa <= 3e12:
            ctx.skip("ill_conditioned")
        # the polynomial is taken in coordinates local to the data box (values of order one although the absolute coordinates are huge: what
        # real data look like, and the hard case for the solver because the absolute monomials cancel heavily)
        ef, nf = [Fraction(float(x)) for x in np.ravel(e)], [Fraction(float(y)) for y in np.ravel(n)]
        e0, n0 = min(ef), min(nf)
        we, wn = (max(ef) - e0) or Fraction(1), (max(nf) - n0) or Fraction(1)
        vals_ = np.array([float(sum(c * ((x - e0) / we) ** int(k.split(",")[0]) * ((y - n0) / wn) ** int(k.split(",")[1]) for k, c in case["poly"].items())) for x, y in zip(ef, nf)])
        d_ = lay_(vals_, case["shape"])
        tr_ = vd.Trend(deg)
        tr_.fit((e, n), d_)
        resid = np.abs(np.asarray(tr_.predict((e, n)), dtype="float64").ravel() - d_.ravel())
        # measured on the unchanged library (offsets up to 1000 x extent, degrees 1-4, 20-6000 points): the misfit stays 200 times below
        # kappa*eps; a solver that truncates resolvable singular values misses by 1e-2 of the data and more
        bound = max(16 * kappa * EPS, 1e-9) * max(float(np.max(np.abs(d_))), 1e-300)
        if not np.all(resid <= bound):
            k = int(np.argmax(resid))
            raise Violation("Trend(%d) fitted to a degree-%d polynomial (given in coordinates local to the data box) at %d points with coordinates offset by up to 1000 extents "
                            "(condition number %.1e) misses its own data by %.3e, more than %.3e" % (deg, max([sum(map(int, kk.split(","))) for kk in case["poly"]] + [0]), e.size, kappa, float(resid[k]), bound))
        ctx.label("deg%d" % deg, "ill_conditioned_local_polynomial")
        ctx.nt(True)
        return
    vals, _ = poly_eval(case["poly"], e, n)
    d = lay_(vals, case["shape"])
    tr = vd.Trend(deg)
    if case["weights"]:
        w = lay_(1.0 + (np.arange(e.size) % 7), case["shape"])
        tr.fit((e, n), d, weights=w)
    else:
        tr.fit((e, n), d)
    qe, qn = gen.cloud_query(case["cloud"], case["query"])
    qe, qn = np.array(qe), np.array(qn)
    pred = np.asarray(tr.predict((qe, qn)))
    exp, mag = poly_eval(case["poly"], qe, qn)
    _, mag_data = poly_eval(case["poly"], e, n)
    scale = max(float(mag.max()) if mag.size else 0.0, float(mag_data.max()))
    # extrapolating a degree-N polynomial amplifies coefficient errors by at most (2.5)^N relative to the data box
    tol = 64 * kappa * EPS * scale * (2.5 ** deg) + 1e-300
    err = float(np.max(np.abs(pred - exp)))
    if not err <= tol:
        raise Violation("Trend(%d) fitted to values of the polynomial %r at %d points predicts with error %.3e at other points (tolerance %.3e, kappa %.3e)"
                        % (deg, case["poly"], e.size, err, tol, kappa))
    at_data = np.asarray(tr.predict((e, n)))
    ctx.check(float(np.max(np.abs(at_data - d))) <= tol, "Trend(%d) does not reproduce the polynomial at the data points", deg)
    ctx.label("deg%d" % deg, "weighted" if case["weights"] else "unweighted", "poly_deg%d" % max([sum(map(int, k.split(","))) for k in case["poly"]] + [0]))
    if e.size == ncoef:
        ctx.label("square_system")
    ctx.nt(e.size >= ncoef and len(case["poly"]) > 0 and (deg == 0 or any(k != "0,0" for k in case["poly"])))


# ---------------------------------------------------------------- large data sets
@st.composite
def large_cases(draw):
    return dict(n=draw(st.sampled_from([400, 700])), seed=draw(st.integers(0, 10**6)), scale=draw(st.sampled_from([1.0, 1e3, 1e-2])), offset=draw(st.sampled_from([0.0, 0.0, 100.0, 1e4])),
                gridder=draw(st.sampled_from(["spline", "spline", "knn", "linear", "chain"])), int_data=draw(st.booleans()))


def check_large(case, ctx):
    """hundreds of scattered points (condition numbers of 1e6 and more): the exact interpolators still reproduce their data"""
    rng = np.random.RandomState(case["seed"])  # a pure function of the generated case
    n, sc, off = case["n"], case["scale"], case["offset"]
    side = int(math.ceil(math.sqrt(n))) + 2
    cells = rng.permutation(side * side)[:n]
    e = off * sc + sc * ((cells % side) + rng.uniform(0.1, 0.9, n))
    nn = -off * sc + sc * ((cells // side) + rng.uniform(0.1, 0.9, n))
    d = np.round(50 * (np.sin(e / (5 * sc)) + np.cos(nn / (7 * sc))) + rng.uniform(-5, 5, n))
    d_arg = d.astype("int64") if case["int_data"] else d
    g = case["gridder"]
    if g == "spline":
        jac = kernels.spline_jacobian(e, nn, e, nn, 0.0)
        kappa = scaled_cond(jac)
        if not kappa <= KAPPA_MAX:
            ctx.skip("ill_conditioned")
        est = quiet(vd.Spline)
        tol = 64 * kappa * EPS * float(np.max(np.abs(d))) + TINY
    elif g == "knn":
        est, tol = vd.KNeighbors(), 0.0
    elif g == "linear":
        est, tol = vd.Linear(), 1e-9 * float(np.max(np.abs(d)))
    else:
        est, tol = vd.Chain([("trend", vd.Trend(1)), ("knn", vd.KNeighbors())]), 1e-9 * float(np.max(np.abs(d)))
    quiet(est.fit, (e, nn), d_arg)
    pred = np.asarray(est.predict((e, nn)), dtype="float64")
    err = np.abs(pred - d)
    if g == "linear":
        # known finding D9: SciPy may return NaN at hull-vertex data points; everything else must be reproduced
        err = err[~np.isnan(pred)]
        ctx.check(np.isnan(pred).sum() <= 4, "Linear predicts NaN at %d of its %d data points", int(np.isnan(pred).sum()), n)
    if err.size and not float(err.max()) <= tol:
        raise Violation("%s fitted to %d scattered points (scale %g, offset %g, %s data) does not reproduce its data: max error %.3e, tolerance %.3e" % (
            g, n, sc, off, "integer" if case["int_data"] else "float", float(err.max()), tol))
    ctx.label(g, "n%d" % n, "int_data" if case["int_data"] else "float_data")
    ctx.nt(True)


# ---------------------------------------------------------------- trends far from the origin
@st.composite
def offset_trend_cases(draw):
    deg = draw(st.integers(1, 4))
    return dict(degree=deg, ratio=draw(st.sampled_from([10.0, 100.0, 1000.0])), n=draw(st.sampled_from([60, 300, 1500, 6000])), seed=draw(st.integers(0, 10**6)),
                scale=draw(st.sampled_from([1.0, 1e3, 1e-2])), coefs=[draw(st.sampled_from([-3, -2, -1, 1, 2, 3])) for _ in range((deg + 1) * (deg + 2) // 2)], weights=draw(st.booleans()))


def check_offset_trend(case, ctx):
    """The property's own corner: coordinates offset by up to 1000 extents, hundreds to thousands of points, data that are a polynomial of the trend's
    degree in coordinates local to the data box (values of order one).  Judged at the data points, where no extrapolation enters."""
    rng = np.random.RandomState(case["seed"])  # a pure function of the generated case
    deg, n, ratio, sc = case["degree"], case["n"], case["ratio"], case["scale"]
    u, v = rng.uniform(0, 1, n), rng.uniform(0, 1, n)
    e, nn = sc * (ratio + u), sc * (-ratio + 2.0 * v)
    # local coordinates recovered exactly from the float coordinates
    ul, vl = (e - e.min()) / (e.max() - e.min()), (nn - nn.min()) / (nn.max() - nn.min())
    d = sum(c * ul**i * vl**j for c, (i, j) in zip(case["coefs"], kernels.monomials(deg)))
    jac = kernels.trend_jacobian(e, nn, deg)
    # what double precision allows here: a plain SVD solve of the column-normalised system that keeps every singular value above machine precision
    a_n = jac / np.sqrt((jac**2).sum(axis=0))
    w_ = 1.0 + (np.arange(n) % 4) if case["weights"] else np.ones(n)
    x_ref = np.linalg.lstsq(a_n * np.sqrt(w_)[:, None], d * np.sqrt(w_), rcond=EPS)[0]
    big = float(np.max(np.abs(d)))
    ref = float(np.max(np.abs(a_n @ x_ref - d))) / big
    if not ref <= 1e-6:
        ctx.skip("beyond_double_precision")
    tr = vd.Trend(deg)
    if case["weights"]:
        tr.fit((e, nn), d, weights=w_)
    else:
        tr.fit((e, nn), d)
    got = float(np.max(np.abs(np.asarray(tr.predict((e, nn)), dtype="float64") - d))) / big
    # measured on the unchanged library over this whole domain: at most 24 times the reference misfit; a solver that discards resolvable singular
    # values is off by a factor of 1e4 and more
    bound = 1000 * max(ref, 1e-12)
    if not got <= bound:
        raise Violation("Trend(%d) fitted to a degree-%d polynomial at %d points whose coordinates are offset by %g extents misses its own data by %.3e of their size; "
                        "a plain SVD solve in double precision misses by %.3e (allowed: 1000 times that)" % (deg, deg, n, ratio, got, ref))
    kappa = ref
    ctx.label("deg%d" % deg, "ratio%g" % ratio, "n%d" % n, "ref_misfit_1e%d" % int(math.floor(math.log10(max(ref, 1e-17)))))
    ctx.nt(ref > 1e-12)


SUBCHECKS = [
    Sub("spline", check_spline, strategy=spline_cases_tier, quick=250, thorough=800, shards_quick=4,
        doc="undamped Spline with forces at the data reproduces the data within 64 kappa eps max|d| (kappa from the harness' own Jacobian)"),
    Sub("vector_spline", check_vector, strategy=vector_cases(), quick=200, thorough=1200, shards_quick=2,
        doc="undamped VectorSpline2D with forces at the data reproduces both components"),
    Sub("kneighbors", check_knn, strategy=cloud_cases(), quick=300, thorough=1500,
        doc="KNeighbors(k=1) returns exactly the datum at every data point"),
    Sub("scipy", check_scipy, strategy=scipy_cases(), quick=400, thorough=2500, shards_quick=2,
        doc="Linear/Cubic (rescale off/on) reproduce the data, no NaN at data points (known finding D9 matched narrowly)"),
    Sub("compositions", check_composition, strategy=composition_cases(), quick=250, thorough=1500, shards_quick=4,
        doc="Chain/Vector assemblies of exact interpolators (and trends) reproduce the data"),
    Sub("trend_polynomial", check_trend, strategy=trend_cases(), quick=400, thorough=2500, shards_quick=2,
        doc="Trend(N) fitted to an integer-coefficient polynomial of total degree <= N reproduces it at other locations"),
    Sub("large", check_large, strategy=large_cases(), quick=6, thorough=40, heavy=True,
        doc="400 - 700 scattered points (condition numbers around 1e6-1e7, also integer-dtype data): Spline, KNeighbors, Linear and a Trend+KNeighbors chain reproduce their data"),
    Sub("trend_offset", check_offset_trend, strategy=offset_trend_cases(), quick=40, thorough=300, heavy=True,
        doc="Trend of degree 1-4 on 60 - 6 000 points whose coordinates are offset by 10 - 1 000 extents: data that are a local polynomial of that degree are reproduced at the data points"),
]
