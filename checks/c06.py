"""C06 - Chain, Vector and filter compose estimators without leaking or losing data."""
import numpy as np
import verde as vd
from hypothesis import strategies as st
from sklearn.base import clone

from vlib import blocks, build, gen
from vlib.build import quiet
from vlib.runner import Sub, Violation

PROPERTY = "C06"
RULE = ("step lists of length 1..4 over {Trend(N), Spline(damping), KNeighbors(k), Linear, BlockReduce(mean|median), BlockMean, nested Chain, "
        "Vector([...]) / VectorSpline2D for 2-component data}; scalar and 2-component data with components that differ; weights none / given / "
        "different per component; 1-D and 2-D arrays; a second dataset for the refit; non-trivial = >= 2 steps or a composite step, and a block "
        "reduction or a vector present or >= 3 steps; distinct = SHA-1 of the case")
ASSUMPTIONS = [
    "reference model = the documented semantics executed by hand: clones of the steps threaded with args = step.filter(*args) in the harness; "
    "chain predictions must equal the sum of the hand-fitted clones' predictions (same operations: 1e-12 relative)",
    "block reductions are only combined with weights when the reduction accepts them (BlockMean, or BlockReduce without weights)",
    "Linear steps are only used on clouds SciPy can triangulate; queries lie inside the data's lattice frame",
]

SCALAR_STEPS = ["trend", "spline", "knn", "linear", "blockreduce", "blockmean", "chain", "chain_block"]
VECTOR_STEPS = ["vector", "vectorspline", "blockreduce", "blockmean", "chain_vector", "chain_block_vector"]


@st.composite
def step_spec(draw, kind, scale, allow_blocks=True):
    if kind == "trend":
        return dict(kind="trend", degree=draw(st.integers(0, 2)))
    if kind == "spline":
        return dict(kind="spline", damping=draw(st.sampled_from([1e-3, 1e-1, 1.0])))
    if kind == "knn":
        return dict(kind="knn", k=draw(st.integers(1, 3)))
    if kind == "linear":
        return dict(kind="linear")
    if kind == "blockreduce":
        return dict(kind="blockreduce", reduction=draw(st.sampled_from(["mean", "median"])), spacing=scale * draw(st.sampled_from([1.5, 2.0, 3.0])),
                    center=draw(st.booleans()))
    if kind == "blockmean":
        return dict(kind="blockmean", spacing=scale * draw(st.sampled_from([1.5, 2.0, 3.0])), center=draw(st.booleans()))
    if kind == "chain":
        return dict(kind="chain", steps=[dict(kind="trend", degree=draw(st.integers(0, 1))), dict(kind="spline", damping=draw(st.sampled_from([1e-2, 1.0])))])
    if kind == "chain_block":
        # a nested chain that contains a block reduction: the outer chain must still pass on residuals at the original points
        return dict(kind="chain", steps=[dict(kind=draw(st.sampled_from(["blockreduce", "blockmean"])), spacing=scale * draw(st.sampled_from([1.5, 2.0, 3.0]))),
                                         dict(kind="trend", degree=draw(st.integers(0, 1)))])
    if kind == "chain_block_vector":
        return dict(kind="chain", steps=[dict(kind="blockmean", spacing=scale * draw(st.sampled_from([1.5, 2.0, 3.0]))),
                                         dict(kind="vector", components=[dict(kind="trend", degree=1), dict(kind="trend", degree=0)])])
    if kind == "vector":
        return dict(kind="vector", components=[draw(step_spec(draw(st.sampled_from(["trend", "spline", "knn"])), scale)) for _ in range(2)])
    if kind == "vectorspline":
        return dict(kind="vectorspline", poisson=draw(st.sampled_from([0.5, -1.0, 0.0])), mindist=scale, damping=draw(st.sampled_from([1e-3, 1e-1])))
    if kind == "chain_vector":
        return dict(kind="chain", steps=[dict(kind="vector", components=[dict(kind="trend", degree=1), dict(kind="trend", degree=0)]),
                                         dict(kind="vectorspline", poisson=0.5, mindist=scale, damping=1e-2)])
    raise ValueError(kind)


@st.composite
def chain_cases(draw):
    ncomp = draw(st.sampled_from([1, 1, 2]))
    cloud = draw(gen.clouds(min_n=10, max_n=36, max_exp=3, ratios=[0.0, 0.0, 1.0, -10.0], aspects=(1.0, 1.0, 3.0), structures=gen.STRUCTURES))
    cloud_b = draw(gen.clouds(min_n=10, max_n=30, max_exp=3, ratios=[0.0, 1.0], aspects=(1.0, 0.5)))
    cloud_b["scale"] = cloud["scale"]  # block spacings are tied to the first cloud's scale
    n, nb = len(cloud["cells"]), len(cloud_b["cells"])
    nsteps = draw(st.integers(1, 4))
    kinds = [draw(st.sampled_from(SCALAR_STEPS if ncomp == 1 else VECTOR_STEPS)) for _ in range(nsteps)]
    wmode = draw(st.sampled_from(["none", "none", "given"]))
    if wmode == "given":
        kinds = [k if k != "chain_block" else "chain" for k in kinds]
    # a block reduction as the very last step predicts nothing: make sure at least one step can predict
    if all(k in ("blockreduce", "blockmean") for k in kinds):
        kinds.append("trend" if ncomp == 1 else "vector")
    steps = [draw(step_spec(k, cloud["scale"])) for k in kinds]
    # after a block reduction the number of points is not known to the generator: k must not exceed it
    def no_blockreduce(sp):
        if sp["kind"] == "blockreduce":
            sp["kind"] = "blockmean"
            sp.pop("reduction", None)
        for sub in sp.get("steps", []) + sp.get("components", []):
            no_blockreduce(sub)

    # weights flow from the input or from any BlockMean: later BlockReduce(np.mean/np.median) steps could not take them
    # (a top-level BlockReduce may use numpy.average instead: it takes the weights, consumes them and passes none on)
    flowing = wmode == "given"
    for sp in steps:
        if flowing and sp["kind"] == "blockreduce" and draw(st.booleans()):
            sp["reduction"] = "average"
            flowing = False
            continue
        if flowing:
            no_blockreduce(sp)
        if sp["kind"] == "chain":
            inner_flow = flowing
            for sub in sp["steps"]:
                if inner_flow:
                    no_blockreduce(sub)
                inner_flow = inner_flow or has_kind(sub, ("blockmean",))
        flowing = flowing or has_kind(sp, ("blockmean",))

    def cap_k(sp):
        if sp["kind"] == "knn":
            sp["k"] = 1
        for sub in sp.get("steps", []) + sp.get("components", []):
            cap_k(sub)

    after_block = False
    for sp in steps:
        if after_block:
            cap_k(sp)
        after_block = after_block or has_kind(sp, ("blockreduce", "blockmean"))
    data = [draw(gen.data_values(n, "unit")) for _ in range(ncomp)]
    data = [[v + 10.0 * (c + 1) + 0.1 * i for i, v in enumerate(d)] for c, d in enumerate(data)]
    data_b = [[float((7 * i + 3 * c) % 11) - 5.0 + 0.25 * c for i in range(nb)] for c in range(ncomp)]
    weights = None if wmode == "none" else [draw(gen.weights_values(n)) for _ in range(ncomp)]
    m = draw(st.integers(1, 8))
    query = [[draw(gen.finite(0, cloud["side"])), draw(gen.finite(0, cloud["side"]))] for _ in range(m)]
    return dict(ncomp=ncomp, cloud=cloud, cloud_b=cloud_b, steps=steps, data=data, data_b=data_b, weights=weights, query=query,
                shape=draw(st.sampled_from(blocks.shape_options(n))), orders=draw(build.orders_strategy()), labels=draw(st.sampled_from([None, "kind"])))


def has_kind(spec, kinds):
    if spec["kind"] in kinds:
        return True
    for sub in spec.get("steps", []) + spec.get("components", []):
        if has_kind(sub, kinds):
            return True
    return False


def pack(arrs, tuple1=False):
    """one array as it is (or, with tuple1, as a one-element tuple, the other documented form of 'array or tuple of arrays')"""
    return arrs[0] if len(arrs) == 1 and not tuple1 else tuple(arrs)


def tuple1_flag(case):
    """a third of the single-component cases hand data (and weights) over as one-element tuples: a pure function of the case"""
    import hashlib, json

    return hashlib.sha1(json.dumps(case, sort_keys=True, default=str).encode()).digest()[5] % 3 == 0


def as_tuple(x):
    return x if isinstance(x, tuple) else (x,)


def close(a, b, rtol=1e-12):
    a, b = np.asarray(a, dtype="float64"), np.asarray(b, dtype="float64")
    if a.shape != b.shape or not np.array_equal(np.isnan(a), np.isnan(b)):
        return False
    ok = ~np.isnan(a)
    a, b = a[ok], b[ok]
    scale = max(float(np.max(np.abs(a))) if a.size else 0.0, float(np.max(np.abs(b))) if b.size else 0.0, 1e-290)
    return bool(np.all(np.abs(a - b) <= rtol * scale))


def fitted_state(est):
    """public fitted attributes (recursively) as a flat dict of arrays"""
    out = {}
    if isinstance(est, vd.Chain):
        for name, step in est.steps:
            for k, v in fitted_state(step).items():
                out[name + "." + k] = v
    elif isinstance(est, vd.Vector):
        for i, comp in enumerate(est.components):
            for k, v in fitted_state(comp).items():
                out["c%d.%s" % (i, k)] = v
    for attr in ("region_", "coef_", "force_", "data_"):
        if hasattr(est, attr):
            out[attr] = np.asarray(getattr(est, attr), dtype="float64")
    return out


def check_chain(case, ctx):
    shape = case["shape"]
    es, ns = gen.cloud_xy(case["cloud"])
    lay = build.Lay(case.get("orders"))
    e, n = lay(es, shape), lay(ns, shape)
    data = [lay(d, shape) for d in case["data"]]
    weights = None if case["weights"] is None else [lay(w, shape) for w in case["weights"]]
    qe, qn = (np.array(v) for v in gen.cloud_query(case["cloud"], case["query"]))
    spec = dict(kind="chain", steps=case["steps"], labels=case.get("labels"))
    if has_kind(spec, ("linear",)):
        from checks.c01 import scipy_accepts

        if not scipy_accepts(e, n):
            ctx.skip("scipy_cannot_triangulate")
        from scipy.interpolate import LinearNDInterpolator

        pts_ = np.column_stack([np.ravel(e), np.ravel(n)])
        if np.isnan(LinearNDInterpolator(pts_, np.zeros(pts_.shape[0]))(pts_)).any():
            ctx.skip("scipy_returns_nan_at_data_points_known_finding_D9")
    chain = build.make_estimator(spec)
    t1 = tuple1_flag(case)
    d_arg = pack(data, t1)
    w_arg = None if weights is None else pack(weights, t1)
    try:
        quiet(chain.fit, (e, n), d_arg, w_arg)
    except Exception as exc:  # noqa: BLE001
        if type(exc).__name__ == "QhullError":
            ctx.skip("scipy_cannot_triangulate_reduced_points")
        raise
    # hand-threaded reference
    clones = [clone(step) for _, step in chain.steps]
    args = ((e, n), pack(data), None if weights is None else pack(weights))  # (the plain form, whatever form the chain itself was given)
    inter = [args]
    for c in clones:
        args = quiet(c.filter, *args)
        inter.append(args)
    preds = [as_tuple(c.predict((qe, qn))) for c in clones if hasattr(c, "predict")]
    exp = [sum(np.asarray(p[k], dtype="float64") for p in preds) for k in range(case["ncomp"])]
    got = as_tuple(chain.predict((qe, qn)))
    ctx.check(len(got) == case["ncomp"], "chain predicts %d components for %d-component data", len(got), case["ncomp"])
    for k in range(case["ncomp"]):
        ctx.check(np.asarray(got[k]).shape == qe.shape, "prediction shape %s for query shape %s", np.asarray(got[k]).shape, qe.shape)
        if not close(got[k], exp[k]):
            raise Violation("chain prediction (component %d) differs from the sum of the predictions of hand-threaded clones of its steps: %r vs %r (steps %r)"
                            % (k, np.asarray(got[k]).tolist()[:4], exp[k].tolist()[:4], [s["kind"] for s in case["steps"]]))
    # every step saw exactly what the previous step's filter returned
    for pos, ((name, step), c) in enumerate(zip(chain.steps, clones)):
        name = "%d (%s)" % (pos, name)
        a, b = fitted_state(step), fitted_state(c)
        ctx.check(set(a) == set(b), "step %s: fitted attributes differ from the hand-threaded clone: %r vs %r", name, sorted(a), sorted(b))
        for key in a:
            if not close(a[key], b[key], 1e-10):
                raise Violation("step %s was not fitted on the previous step's output: %s differs from the hand-threaded clone" % (name, key))
    # prediction at the data plus the last residual gives the data back
    if not has_kind(spec, ("blockreduce", "blockmean")):
        at_data = as_tuple(chain.predict((e, n)))
        last_res = as_tuple(inter[-1][1])
        for k in range(case["ncomp"]):
            total = np.asarray(at_data[k]).reshape(shape) + np.asarray(last_res[k]).reshape(shape)
            if not close(total, data[k], 1e-10):
                raise Violation("chain prediction at the data plus the last step's residual does not give the data back (component %d)" % k)
        ctx.check(close(inter[-1][0][0], e) and close(inter[-1][0][1], n), "coordinates changed along a chain without block reductions")
        if weights is not None:
            for k, w in enumerate(as_tuple(inter[-1][2])):
                ctx.check(w is not None and close(np.ravel(w), np.ravel(weights[k])), "weights changed along a chain without block reductions")
    ctx.check(np.allclose(chain.region_, (e.min(), e.max(), n.min(), n.max())), "chain region_ is not the bounding box of the data")
    # the chain's own filter: the coordinates and weights it was given, data minus its prediction, in the data's shape
    chain_f = build.make_estimator(spec)
    out = quiet(chain_f.filter, (e, n), d_arg, w_arg)
    ctx.check(isinstance(out, tuple) and len(out) == 3, "Chain.filter must return (coordinates, residuals, weights)")
    oc, ores, ow = out
    ctx.check(len(oc) == 2 and np.array_equal(oc[0], e) and np.array_equal(oc[1], n), "Chain.filter did not return the coordinates it was given (steps %r)", [s["kind"] for s in case["steps"]])
    if weights is None:
        ctx.check(ow is None, "Chain.filter invented weights")
    else:
        ctx.check(all(np.array_equal(a, b) for a, b in zip(as_tuple(ow), weights)), "Chain.filter did not return the weights it was given")
    at_data_f = as_tuple(chain_f.predict((e, n)))
    if not isinstance(d_arg, tuple):
        ctx.check(not isinstance(ores, (tuple, list)), "Chain.filter was given one data array and returned its residuals as a %s", type(ores).__name__)
    for k, r in enumerate(as_tuple(ores)):
        r = np.asarray(r)
        ctx.check(r.shape == data[k].shape, "Chain.filter residual has shape %s, data has %s", r.shape, data[k].shape)
        ctx.check(close(r, data[k] - np.asarray(at_data_f[k]).reshape(data[k].shape), 1e-12), "Chain.filter residual (component %d) is not data minus the chain's prediction", k)
    # refit on another dataset = fresh chain (VectorSpline2D keeps its first force locations by documented design: decided in C20)
    if has_kind(spec, ("vectorspline",)):
        kinds = [s["kind"] for s in case["steps"]]
        ctx.label("steps%d" % len(kinds), "comps%d" % case["ncomp"], "refit_not_compared", *sorted(set(kinds)))
        ctx.nt(True)
        return
    eb, nb_ = (np.array(v) for v in gen.cloud_xy(case["cloud_b"]))
    db = pack([np.array(d) for d in case["data_b"]])
    fresh = build.make_estimator(spec)
    if has_kind(spec, ("linear",)):
        # the same precondition as for the first data set: known finding D9 (SciPy returns NaN at some hull-vertex data points) would put NaN residuals into the next step
        from scipy.interpolate import LinearNDInterpolator

        pts_b = np.column_stack([eb, nb_])
        try:
            nan_b = np.isnan(LinearNDInterpolator(pts_b, np.zeros(pts_b.shape[0]))(pts_b)).any()
        except Exception:  # noqa: BLE001 - Qhull refuses the second cloud: handled below
            nan_b = False
        if nan_b:
            kinds = [s["kind"] for s in case["steps"]]
            ctx.label("steps%d" % len(kinds), "refit_skipped_known_finding_D9")
            ctx.nt(True)
            return
    try:
        quiet(chain.fit, (eb, nb_), db)
        quiet(fresh.fit, (eb, nb_), db)
    except Exception as exc:  # noqa: BLE001
        if type(exc).__name__ == "QhullError":
            ctx.skip("scipy_cannot_triangulate_second_dataset")
        raise
    qb = (np.array(gen.cloud_query(case["cloud_b"], case["query"])[0]), np.array(gen.cloud_query(case["cloud_b"], case["query"])[1]))
    for a, b in zip(as_tuple(chain.predict(qb)), as_tuple(fresh.predict(qb))):
        ctx.check(np.array_equal(np.asarray(a), np.asarray(b), equal_nan=True), "a chain refitted on new data predicts differently from a fresh chain fitted on the same data")
    sa, sb = fitted_state(chain), fitted_state(fresh)
    ctx.check(set(sa) == set(sb) and all(np.array_equal(sa[k], sb[k], equal_nan=True) for k in sa),
              "after a refit the fitted attributes (region_, coefficients, ...) differ from those of a fresh chain fitted on the same data")
    kinds = [s["kind"] for s in case["steps"]]
    ctx.label("steps%d" % len(kinds), "comps%d" % case["ncomp"], "weights" if weights is not None else "noweights", *sorted(set(kinds)))
    composite = has_kind(spec, ("vector", "vectorspline", "blockreduce", "blockmean")) or any(k == "chain" for k in kinds)
    ctx.nt((len(kinds) >= 2 or composite) and (composite or len(kinds) >= 3))


# ---------------------------------------------------------------- Vector routing
@st.composite
def vector_cases(draw):
    ncomp = draw(st.integers(2, 3))
    cloud = draw(gen.clouds(min_n=8, max_n=30, max_exp=3, ratios=[0.0, 1.0, -10.0], structures=gen.STRUCTURES))
    n = len(cloud["cells"])
    comps = [draw(step_spec(draw(st.sampled_from(["trend", "spline", "knn", "chain"])), cloud["scale"])) for _ in range(ncomp)]
    data = [[v + 100.0 * (c + 1) for v in draw(gen.data_values(n, "unit"))] for c in range(ncomp)]
    wmode = draw(st.sampled_from(["none", "given", "given"]))
    weights = None if wmode == "none" else [draw(gen.weights_values(n)) for _ in range(ncomp)]
    m = draw(st.integers(1, 6))
    return dict(cloud=cloud, components=comps, data=data, weights=weights, query=[[draw(gen.finite(0, cloud["side"])), draw(gen.finite(0, cloud["side"]))] for _ in range(m)],
                shape=draw(st.sampled_from(blocks.shape_options(n))), orders=draw(build.orders_strategy()))


def check_vector(case, ctx):
    shape = case["shape"]
    es, ns = gen.cloud_xy(case["cloud"])
    lay = build.Lay(case.get("orders"))
    e, n = lay(es, shape), lay(ns, shape)
    data = tuple(lay(d, shape) for d in case["data"])
    weights = None if case["weights"] is None else tuple(lay(w, shape) for w in case["weights"])
    qe, qn = (np.array(v) for v in gen.cloud_query(case["cloud"], case["query"]))
    vec = build.make_estimator(dict(kind="vector", components=case["components"]))
    quiet(vec.fit, (e, n), data, weights)
    pred = vec.predict((qe, qn))
    ctx.check(isinstance(pred, tuple) and len(pred) == len(data), "Vector must predict one array per component")
    for i, spec in enumerate(case["components"]):
        alone = build.make_estimator(spec)
        quiet(alone.fit, (e, n), data[i], None if weights is None else weights[i])
        exp = np.asarray(alone.predict((qe, qn)))
        if not np.array_equal(np.asarray(pred[i]), exp):
            raise Violation("Vector component %d (%s) differs from the same estimator fitted alone on data[%d] with weights[%d]: %r vs %r"
                            % (i, spec["kind"], i, i, np.asarray(pred[i]).tolist()[:4], exp.tolist()[:4]))
    # one weights array per component: a shorter tuple leaves a component without its weights (and, with zip, without a fit) and has to be refused
    if weights is not None:
        vec3 = build.make_estimator(dict(kind="vector", components=case["components"]))
        try:
            quiet(vec3.fit, (e, n), data, weights[:-1])
        except Exception:  # noqa: BLE001 - refused, as it must be
            pass
        else:
            raise Violation("Vector.fit accepted %d weights arrays for %d data components" % (len(weights) - 1, len(data)))
    # filter: same coordinates and weights, residual = data - prediction in the data's shape
    vec2 = build.make_estimator(dict(kind="vector", components=case["components"]))
    out = quiet(vec2.filter, (e, n), data, weights)
    ctx.check(isinstance(out, tuple) and len(out) == 3, "filter must return (coordinates, residuals, weights)")
    oc, res, ow = out
    ctx.check(len(oc) == 2 and np.array_equal(oc[0], e) and np.array_equal(oc[1], n), "filter changed the coordinates")
    if weights is None:
        ctx.check(ow is None, "filter invented weights")
    else:
        ctx.check(len(ow) == len(weights) and all(np.array_equal(a, b) for a, b in zip(ow, weights)), "filter changed the weights")
    at_data = vec2.predict((e, n))
    for i in range(len(data)):
        r = np.asarray(res[i])
        ctx.check(r.shape == data[i].shape, "residual component %d has shape %s, data has %s", i, r.shape, data[i].shape)
        ctx.check(close(r, data[i] - np.asarray(at_data[i]).reshape(shape), 1e-12), "residual component %d is not data - prediction", i)
    ctx.label("comps%d" % len(data), "weights" if weights is not None else "noweights", *sorted({s["kind"] for s in case["components"]}))
    ctx.nt(True)


# ---------------------------------------------------------------- filter of single gridders
@st.composite
def filter_cases(draw):
    cloud = draw(gen.clouds(min_n=6, max_n=25, max_exp=3, ratios=[0.0, 1.0], structures=gen.STRUCTURES))
    n = len(cloud["cells"])
    kind = draw(st.sampled_from(["trend", "spline", "knn", "linear", "vectorspline"]))
    ncomp = 2 if kind == "vectorspline" else 1
    return dict(cloud=cloud, spec=draw(step_spec(kind, cloud["scale"])), data=[draw(gen.data_values(n, "mixed")) for _ in range(ncomp)],
                weights=draw(st.one_of(st.none(), st.lists(gen.weights_values(n), min_size=ncomp, max_size=ncomp))),
                shape=draw(st.sampled_from(blocks.shape_options(n))), extra=draw(st.booleans()), orders=draw(build.orders_strategy()))


def check_filter(case, ctx):
    shape = case["shape"]
    es, ns = gen.cloud_xy(case["cloud"])
    lay = build.Lay(case.get("orders"))
    e, n = lay(es, shape), lay(ns, shape)
    coords = (e, n) + ((lay(np.arange(e.size, dtype="float64"), shape),) if case["extra"] else ())
    data = [lay(d, shape) for d in case["data"]]
    weights = None if case["weights"] is None else [lay(w, shape) for w in case["weights"]]
    if case["spec"]["kind"] == "linear":
        from checks.c01 import scipy_accepts

        if not scipy_accepts(e, n):
            ctx.skip("scipy_cannot_triangulate")
    est = build.make_estimator(case["spec"])
    t1 = tuple1_flag(case)
    w_arg = None if weights is None else pack(weights, t1)
    # a quarter of the cases hand the coordinates over as one stacked array (the return form of longitude_continuity); what comes back is compared
    # with a copy taken beforehand, so that writing into the caller's array does not go unnoticed
    given = build.maybe_stack(tuple(np.asarray(c, dtype="float64") for c in coords), build.stack_flag(case))
    before = [np.array(c, copy=True) for c in coords]
    out = quiet(est.filter, given, pack(data, t1), w_arg)
    ctx.check(isinstance(out, tuple) and len(out) == 3, "filter must return (coordinates, residuals, weights)")
    oc, res, ow = out
    ctx.check(len(oc) == len(coords) and all(np.array_equal(a, b) for a, b in zip(oc, before)), "filter did not return the coordinates it was given (or wrote into them)")
    ctx.check(all(np.array_equal(a, b) for a, b in zip(given, before)), "filter wrote into the coordinate array it was given")
    if weights is None:
        ctx.check(ow is None, "filter invented weights")
    else:
        ctx.check(all(np.array_equal(a, b) for a, b in zip(as_tuple(ow), weights)), "filter changed the weights")
    ref = build.make_estimator(case["spec"])
    quiet(ref.fit, coords, pack(data), None if weights is None else pack(weights))
    pred = as_tuple(ref.predict(coords))
    if len(data) == 1 and not t1:
        ctx.check(not isinstance(res, (tuple, list)), "filter was given one data array and returned its residuals as a %s (the data's shape is %s)", type(res).__name__, data[0].shape)
    res = as_tuple(res)
    ctx.check(len(res) == len(data), "residuals have %d components for %d-component data", len(res), len(data))
    for k in range(len(data)):
        r = np.asarray(res[k])
        ctx.check(r.shape == data[k].shape, "residual has shape %s, data has %s", r.shape, data[k].shape)
        exp = data[k] - np.asarray(pred[k]).reshape(shape)
        ctx.check(np.array_equal(r, exp, equal_nan=True), "residual is not data minus the prediction of the gridder fitted on the same input")
    ctx.label(case["spec"]["kind"], "ndim%d" % len(shape), "weights" if weights is not None else "noweights", "data_as_1tuple" if t1 and len(data) == 1 else "data_plain")
    ctx.nt(True)


SUBCHECKS = [
    Sub("chain", check_chain, strategy=chain_cases(), quick=150, thorough=800, shards_quick=4,
        doc="Chain vs hand-threaded clones: prediction = sum of step predictions, every step fitted on the previous filter output, prediction + last residual = data, refit = fresh fit"),
    Sub("vector", check_vector, strategy=vector_cases(), quick=150, thorough=800, shards_quick=2,
        doc="Vector fits component i to data[i] with weights[i] only (data and weights differ per component); filter contract"),
    Sub("filter", check_filter, strategy=filter_cases(), quick=200, thorough=1000, shards_quick=2,
        doc="BaseGridder.filter returns the given coordinates and weights and data minus prediction in the data's shape"),
]
