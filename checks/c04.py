"""C04 - gridding results do not depend on array layout, point order or dtype; linearity in the data."""
import math

import numpy as np
import verde as vd
from hypothesis import strategies as st

from vlib import blocks, build, gen, kernels
from vlib.build import quiet
from vlib.oracles import EPS
from vlib.runner import Sub, Violation

PROPERTY = "C04"
RULE = ("for each gridder (Spline damped/undamped, Trend, VectorSpline2D, KNeighbors(k, mean), Linear, Cubic, Chain(Trend, Spline), Vector) a base "
        "dataset on a jittered-lattice cloud (or an integer lattice for dtype cases) and one transformation of the fit and/or query inputs: "
        "permutation, 2-D reshape, Fortran order, strided view, pandas Series (also with a reversed index), appended extra coordinates, int64/int32 "
        "dtype of integer-valued coordinates/data/query; plus linear combinations a*d1 + b*d2 for the gridders that are linear in the data; "
        "non-trivial = the transformation is not the identity (a permutation moving >= 2 points, a real dtype/layout change) and n >= 4; "
        "distinct = SHA-1 of the case")
ASSUMPTIONS = [
    "layout/dtype/extra-coordinate changes perform the same arithmetic: agreement within 1e-12 relative (NaN == NaN)",
    "permutations and linear combinations of least-squares gridders: 256*kappa*eps*scale with kappa from the harness-built scaled (augmented) Jacobian; skipped when kappa > 1e8",
    "Cubic is excluded from the permutation relation (SciPy's iterative gradient estimate is order dependent by several percent on thin triangulations); its layout/dtype relations and the bitwise SciPy differential (C03) remain",
    "KNeighbors queries with distance ties are not compared under permutation",
    "query easting/northing have equal shapes (documented contract)",
]
K = 256.0
GRIDDERS = ["spline", "spline_damped", "trend", "vectorspline", "knn", "knn1", "linear", "cubic", "chain", "vector"]
LINEAR_IN_DATA = ["spline", "spline_damped", "trend", "vectorspline", "knn", "knn1", "linear", "chain", "vector"]


def spec_for(name, case):
    if name == "spline":
        return dict(kind="spline")
    if name == "spline_damped":
        return dict(kind="spline", damping=case["damping"])
    if name == "trend":
        return dict(kind="trend", degree=case["degree"])
    if name == "vectorspline":
        return dict(kind="vectorspline", poisson=case["poisson"], mindist=case["mindist_abs"])
    if name == "knn":
        return dict(kind="knn", k=case["k"], reduction="mean")
    if name == "knn1":
        return dict(kind="knn", k=1)
    if name == "linear":
        return dict(kind="linear", rescale=case["rescale"])
    if name == "cubic":
        return dict(kind="cubic", rescale=case["rescale"])
    if name == "chain":
        return dict(kind="chain", steps=[dict(kind="trend", degree=min(case["degree"], 2)), dict(kind="spline", damping=case["damping"])])
    if name == "vector":
        return dict(kind="vector", components=[dict(kind="trend", degree=min(case["degree"], 2)), dict(kind="spline", damping=case["damping"])])
    raise ValueError(name)


@st.composite
def base(draw, integer=False, gridders=GRIDDERS, min_n=4):
    name = draw(st.sampled_from(gridders))
    if integer:
        n = draw(st.integers(min_n, 20))
        side = int(math.ceil(math.sqrt(n))) + 2
        cells = draw(st.lists(st.tuples(st.integers(0, side - 1), st.integers(0, side - 1)), min_size=n, max_size=n, unique=True))
        step = draw(st.sampled_from([1, 2, 10]))
        off = [draw(st.sampled_from([0, -50, 1000])), draw(st.sampled_from([0, 7, -3000]))]
        cloud = dict(cells=[list(c) for c in cells], side=side, step=step, off=off, integer=True, scale=float(step))
        data = [[float(v) for v in draw(st.lists(st.integers(-120, 120), min_size=n, max_size=n))] for _ in range(2)]
        m = draw(st.integers(1, 10))
        query = [[draw(st.integers(-1, side)), draw(st.integers(-1, side))] for _ in range(m)]
    else:
        # (survey lines and sorted storage; exact grids are left out here: their equidistant neighbours make k-nearest and triangulated results depend on the point order)
        cloud = draw(gen.clouds(min_n=min_n, max_n=25, max_exp=4, ratios=[0.0, 0.0, 1.0, -10.0, 100.0], structures=["lines_ns", "lines_we", "sorted_n", "sorted_e_desc"]))
        n = len(cloud["cells"])
        kind = draw(st.sampled_from(["unit", "int", "big", "mixed"]))
        data = [draw(gen.data_values(n, kind)) for _ in range(2)]
        m = draw(st.integers(1, 10))
        query = [[draw(gen.finite(0, cloud["side"])), draw(gen.finite(0, cloud["side"]))] for _ in range(m)]
    case = dict(gridder=name, cloud=cloud, data=data, query=query, damping=draw(st.sampled_from([1e-6, 1e-3, 1.0])), degree=draw(st.integers(0, 3)),
                poisson=draw(st.sampled_from([-1.0, 0.5, 0.0])), k=draw(st.integers(1, min(n, 5))), rescale=draw(st.booleans()))
    case["mindist_abs"] = cloud["scale"] * draw(st.sampled_from([0.5, 1.0]))
    return case


def coords_of(case):
    c = case["cloud"]
    if c.get("integer"):
        e = [c["off"][0] + c["step"] * a for a, b in c["cells"]]
        n = [c["off"][1] + c["step"] * b for a, b in c["cells"]]
        qe = [c["off"][0] + c["step"] * a for a, b in case["query"]]
        qn = [c["off"][1] + c["step"] * b for a, b in case["query"]]
        return e, n, qe, qn
    e, n = gen.cloud_xy(c)
    qe, qn = gen.cloud_query(c, case["query"])
    return e, n, qe, qn


def ncomp(case):
    return 2 if case["gridder"] in ("vectorspline", "vector") else 1


def fit_predict(case, e, n, data, qe, qn, extra=None, qextra=None):
    est = build.make_estimator(spec_for(case["gridder"], case))
    coords = (e, n) + (tuple(extra) if extra else ())
    d = tuple(data[:2]) if ncomp(case) == 2 else data[0]
    # a quarter of the cases hand the coordinates over as one stacked (n_coordinates, ...) array, the form in which longitude_continuity returns them
    flag = build.stack_flag(case)
    quiet(est.fit, build.maybe_stack(coords, flag), d)
    pred = est.predict(build.maybe_stack((qe, qn) + (tuple(qextra) if qextra else ()), flag))
    return pred if isinstance(pred, tuple) else (pred,)


def kappa_of(case, e, n):
    """effective condition number of the least-squares systems behind the gridder (1 for the non-least-squares ones)"""
    e, n = np.asarray(e, dtype="float64"), np.asarray(n, dtype="float64")
    name = case["gridder"]

    def cond(j, damping=None):
        s = j.std(axis=0)
        s[s == 0] = 1
        a = j / s
        if damping is not None:
            a = np.vstack([a, math.sqrt(damping) * np.eye(a.shape[1])])
        sv = np.linalg.svd(a, compute_uv=False)
        c = sv[0] / sv[-1] if sv[-1] > 0 else np.inf
        return c if damping is None else c * c

    if name == "spline":
        return cond(kernels.spline_jacobian(e, n, e, n))
    if name == "spline_damped":
        return cond(kernels.spline_jacobian(e, n, e, n), case["damping"])
    if name == "trend":
        j = kernels.trend_jacobian(e, n, case["degree"])
        return cond(j) if j.shape[0] >= j.shape[1] else np.inf
    if name == "vectorspline":
        return cond(kernels.vector_jacobian(e, n, e, n, case["mindist_abs"], case["poisson"]))
    if name in ("chain", "vector"):
        j = kernels.trend_jacobian(e, n, min(case["degree"], 2))
        kt = cond(j) if j.shape[0] >= j.shape[1] else np.inf
        return kt + cond(kernels.spline_jacobian(e, n, e, n), case["damping"])
    return 1.0


def compare(ctx, what, ref, got, tol_abs, qshape=None):
    ctx.check(len(ref) == len(got), "%s: number of components changed", what)
    for k, (r, g) in enumerate(zip(ref, got)):
        g = np.asarray(g)
        if qshape is not None:
            ctx.check(g.shape == tuple(qshape), "%s: prediction has shape %s, the query has shape %s", what, g.shape, tuple(qshape))
        r, g = np.asarray(r, dtype="float64").ravel(), np.asarray(g, dtype="float64").ravel()
        ctx.check(r.shape == g.shape, "%s: prediction sizes differ", what)
        ctx.check(np.array_equal(np.isnan(r), np.isnan(g)), "%s: NaN pattern changed (component %d)", what, k)
        ok = ~np.isnan(r)
        if ok.any():
            err = float(np.max(np.abs(r[ok] - g[ok])))
            if not err <= tol_abs:
                raise Violation("%s: predictions changed by %.3e (tolerance %.3e), component %d: %r vs %r" % (what, err, tol_abs, k, r[ok][:4].tolist(), g[ok][:4].tolist()))


def magnitude(case, ref):
    vals = [abs(v) for d in case["data"][:ncomp(case)] for v in d]
    m = max(vals) if vals else 0.0
    for r in ref:
        r = np.asarray(r, dtype="float64")
        if np.isfinite(r).any():
            m = max(m, float(np.nanmax(np.abs(r))))
    return m + 1e-290


# ---------------------------------------------------------------- layouts, dtypes, extra coordinates (same arithmetic)
LAYOUTS = ["2d", "fortran", "strided", "series", "series_rev", "table_ne", "table_rev"]


@st.composite
def layout_cases(draw):
    integer = draw(st.booleans())
    case = draw(base(integer=integer))
    n = len(case["cloud"]["cells"])
    m = len(case["query"])
    t = dict(fit=draw(st.sampled_from(["same"] + LAYOUTS)), query=draw(st.sampled_from(["same", "2d", "fortran", "strided", "series", "0d"])),
             extra=draw(st.integers(0, 2)), qextra=draw(st.integers(0, 1)))
    if integer:
        t["dtype_coords"] = draw(st.sampled_from(["float64", "int64", "int32", "uint16", "uint32", "int16", "uint8", "int8"]))
        t["dtype_data"] = draw(st.sampled_from(["float64", "int64", "int32", "uint16", "int16", "int8"]))
        t["mixed_components"] = draw(st.booleans())  # second component keeps fractional float values while the first has an integer dtype
        t["dtype_query"] = draw(st.sampled_from(["float64", "int64", "int32", "uint16", "uint32", "int16", "uint8"]))
    if not integer and draw(st.integers(0, 4)) == 0:
        # query points that are almost, but not quite, a regular grid (each a few 1e-6 of its coordinate away from its node), handed over as 2-D arrays
        t["near_grid"] = [draw(st.integers(2, 5)), draw(st.integers(2, 5))]
        t["query"] = draw(st.sampled_from(["2d", "fortran"]))
    # arrays read from big-endian files (netCDF classic, FITS, raw binary) keep a non-native byte order
    t["big_endian"] = draw(st.sampled_from([None, None, None, "coords", "data", "query", "all"]))
    t["fit_shape"] = draw(st.sampled_from(blocks.shape_options(n)[1:] or [[n, 1]]))
    t["query_shape"] = draw(st.sampled_from(blocks.shape_options(m)[1:] or [[m, 1]]))
    case["transform"] = t
    return case


def present(values, kind, shape, dtype):
    if kind == "same":
        return np.array(values, dtype=dtype)
    if kind == "series_rev":
        return build.layout(values, dict(kind="series", reversed_index=True), dtype)
    if kind == "0d":
        return np.array(values[0], dtype=dtype)
    return build.layout(values, dict(kind=kind, shape=shape), dtype)


def check_layout(case, ctx):
    e, n, qe, qn = coords_of(case)
    t = case["transform"]
    if case["gridder"] in ("linear", "cubic"):
        from checks.c01 import scipy_accepts

        if not scipy_accepts(e, n, case["rescale"]):
            ctx.skip("scipy_cannot_triangulate")
    if t["query"] == "0d":
        qe, qn = qe[:1], qn[:1]
    if t.get("near_grid"):
        rows, cols = t["near_grid"]
        ge, gn = np.meshgrid(np.linspace(min(e), max(e), cols), np.linspace(min(n), max(n), rows))
        wob = np.array([[((3 * i + 7 * j) % 5 - 2) / 2.0 for j in range(cols)] for i in range(rows)])
        ge = ge + wob * 4e-6 * np.maximum(np.abs(ge), 1e-3)
        gn = gn + wob.T[:rows, :cols] * 4e-6 * np.maximum(np.abs(gn), 1e-3) if rows == cols else gn + wob[::-1, ::-1] * 4e-6 * np.maximum(np.abs(gn), 1e-3)
        qe, qn = ge.ravel().tolist(), gn.ravel().tolist()
        t = dict(t, query_shape=[rows, cols])
    ref = fit_predict(case, np.array(e, dtype="float64"), np.array(n, dtype="float64"), [np.array(d, dtype="float64") for d in case["data"]],
                      np.array(qe, dtype="float64"), np.array(qn, dtype="float64"))
    dc, dd, dq = t.get("dtype_coords", "float64"), t.get("dtype_data", "float64"), t.get("dtype_query", "float64")

    def fits(dt, *arrays):
        # a narrow or unsigned dtype only when every value is representable; otherwise the signed 64-bit type
        if dt != "float64" and any(min(a) < np.iinfo(dt).min or max(a) > np.iinfo(dt).max for a in arrays):
            return "int64"
        return dt
    dc, dd, dq = fits(dc, e, n), fits(dd, *case["data"]), fits(dq, qe, qn)
    fit_kind = t["fit"]
    table = fit_kind[6:] if fit_kind.startswith("table_") else None  # easting and northing as views of one 2-D table (columns swapped / rows reversed)
    if table:
        fit_kind = "same"
    e2, n2 = build.table_views(present(e, fit_kind, t["fit_shape"], dc), present(n, fit_kind, t["fit_shape"], dc), table)
    data2 = [present(d, fit_kind, t["fit_shape"], dd) for d in case["data"]]
    if t.get("mixed_components") and len(case["data"]) > 1:
        frac = [v + 0.37 for v in case["data"][1]]
        data2[1] = present(frac, fit_kind, t["fit_shape"], "float64")
        ref = fit_predict(case, np.array(e, dtype="float64"), np.array(n, dtype="float64"), [np.array(case["data"][0], dtype="float64"), np.array(frac, dtype="float64")],
                          np.array(qe, dtype="float64"), np.array(qn, dtype="float64"))
    # the ignored extra coordinates may hold anything, also missing values (a station without a height)
    junk = [float(i) for i in range(len(e))]
    if len(junk) >= 3 and build.plain_flag(case):
        junk[1], junk[-1] = float("nan"), float("inf")
    be = t.get("big_endian")

    def swapped(a):
        return a.astype(a.dtype.newbyteorder(">")) if isinstance(a, np.ndarray) and a.dtype.kind in "fiu" and a.dtype.itemsize > 1 else a
    if be in ("coords", "all"):
        e2, n2 = swapped(e2), swapped(n2)
    if be in ("data", "all"):
        data2 = [swapped(d) for d in data2]
    extra = [present(junk, fit_kind, t["fit_shape"], "float64") for _ in range(t["extra"])]
    qe2, qn2 = present(qe, t["query"], t["query_shape"], dq), present(qn, t["query"], t["query_shape"], dq)
    if be in ("query", "all"):
        qe2, qn2 = swapped(qe2), swapped(qn2)
    qextra = [present([1.0] * len(qe), t["query"], t["query_shape"], "float64") for _ in range(t["qextra"])]
    got = fit_predict(case, e2, n2, data2, qe2, qn2, extra, qextra)
    qshape = np.shape(qe2)
    compare(ctx, "%s with fit layout %s/%s/%s, query layout %s/%s, %d extra coordinate(s)" % (case["gridder"], fit_kind, dc, dd, t["query"], dq, t["extra"]),
            ref, got, 1e-12 * magnitude(case, ref), qshape)
    changed = fit_kind != "same" or table is not None or be is not None or t["query"] != "same" or t["extra"] or t["qextra"] or (dc, dd, dq) != ("float64",) * 3
    ctx.label(case["gridder"], "fit_" + (fit_kind if not table else "table_" + table), "query_" + t["query"], "extra%d" % t["extra"], *(["near_grid_query"] if t.get("near_grid") else []))
    if (dc, dd, dq) != ("float64",) * 3:
        ctx.label(*["narrow_or_unsigned_" + w for w, d_ in (("coords", dc), ("data", dd), ("query", dq)) if d_ not in ("float64", "int64", "int32")])
        ctx.label("int_coords" if dc != "float64" else "float_coords", "int_data" if dd != "float64" else "float_data", "int_query" if dq != "float64" else "float_query")
    ctx.nt(bool(changed) and len(e) >= 4)


# ---------------------------------------------------------------- permutations
@st.composite
def permutation_cases(draw):
    case = draw(base(integer=False))
    n = len(case["cloud"]["cells"])
    case["perm"] = list(draw(st.permutations(range(n))))
    return case


def knn_tie_free(case, e, n, qe, qn):
    d = np.hypot(np.array(qe)[:, None] - np.array(e)[None, :], np.array(qn)[:, None] - np.array(n)[None, :])
    d.sort(axis=1)
    k = 1 if case["gridder"] == "knn1" else case["k"]
    if k >= d.shape[1]:
        return np.ones(d.shape[0], dtype=bool)
    return (d[:, k] - d[:, k - 1]) > 1e-9 * np.maximum(d[:, k], 1e-300)


def check_permutation(case, ctx):
    e, n, qe, qn = coords_of(case)
    name = case["gridder"]
    perm = case["perm"]
    if name in ("linear", "cubic"):
        from checks.c01 import scipy_accepts

        if not scipy_accepts(e, n, case["rescale"]):
            ctx.skip("scipy_cannot_triangulate")
    if name == "cubic":
        # SciPy's iterative Clough-Tocher gradient estimate depends on the order of the points (differences of 4-16 % between two orders of the
        # same cloud were observed on thin triangulations, at any scale): the relation cannot be judged soundly for Cubic. verde's own part -
        # handing points and values to SciPy in the caller's raveled order - is decided bitwise by the SciPy differential of C03.
        ctx.skip("cubic_order_sensitivity_of_scipy")
    kappa = kappa_of(case, e, n)
    if not kappa <= 1e8:
        ctx.skip("ill_conditioned")
    ea, na = np.array(e), np.array(n)
    data = [np.array(d) for d in case["data"]]
    if name.startswith("knn"):
        keep = knn_tie_free(case, e, n, qe, qn)
        if not keep.any():
            ctx.skip("all_queries_tied")
        qe, qn = list(np.array(qe)[keep]), list(np.array(qn)[keep])
    ref = fit_predict(case, ea, na, data, np.array(qe), np.array(qn))
    got = fit_predict(case, ea[perm], na[perm], [d[perm] for d in data], np.array(qe), np.array(qn))
    mag = magnitude(case, ref)
    if name in ("knn", "knn1"):
        tol = 1e-12 * mag
    elif name == "linear":
        tol = 1e-9 * mag
    elif name == "cubic":
        tol = 1e-2 * mag
    else:
        tol = K * kappa * EPS * mag
    compare(ctx, "%s after reordering the data points" % name, ref, got, tol)
    moved = sum(1 for i, p in enumerate(perm) if i != p)
    ctx.label(name, "kappa1e%d" % int(math.log10(max(kappa, 1))))
    ctx.nt(moved >= 2 and len(e) >= 4)


# ---------------------------------------------------------------- linearity in the data
@st.composite
def linearity_cases(draw):
    case = draw(base(integer=False, gridders=LINEAR_IN_DATA))
    n = len(case["cloud"]["cells"])
    kind = draw(st.sampled_from(["unit", "int", "big"]))
    case["data2"] = [draw(gen.data_values(n, kind)) for _ in range(2)]
    coef = st.one_of(gen.log_uniform(-3, 3), gen.log_uniform(-3, 3).map(lambda v: -v), st.sampled_from([1.0, -1.0, 2.0, 0.5]))
    case["a"], case["b"] = draw(coef), draw(coef)
    return case


def check_linearity(case, ctx):
    e, n, qe, qn = coords_of(case)
    name = case["gridder"]
    if name == "linear":
        from checks.c01 import scipy_accepts

        if not scipy_accepts(e, n, case["rescale"]):
            ctx.skip("scipy_cannot_triangulate")
    kappa = kappa_of(case, e, n)
    if not kappa <= 1e8:
        ctx.skip("ill_conditioned")
    ea, na, qe, qn = np.array(e), np.array(n), np.array(qe), np.array(qn)
    d1 = [np.array(d) for d in case["data"]]
    d2 = [np.array(d) for d in case["data2"]]
    a, b = case["a"], case["b"]
    p1 = fit_predict(case, ea, na, d1, qe, qn)
    p2 = fit_predict(case, ea, na, d2, qe, qn)
    pc = fit_predict(case, ea, na, [a * x + b * y for x, y in zip(d1, d2)], qe, qn)
    comb = tuple(a * np.asarray(x) + b * np.asarray(y) for x, y in zip(p1, p2))
    m1 = max(float(np.max(np.abs(x))) for x in d1[:ncomp(case)])
    m2 = max(float(np.max(np.abs(x))) for x in d2[:ncomp(case)])
    mag = abs(a) * m1 + abs(b) * m2
    for r in list(p1) + list(p2):
        r = np.asarray(r, dtype="float64")
        if np.isfinite(r).any():
            mag = max(mag, (abs(a) + abs(b)) * float(np.nanmax(np.abs(r))))
    mag += 1e-290
    tol = (1e-12 if name in ("knn", "knn1", "linear") else K * kappa * EPS) * mag
    if name == "linear":
        tol = 1e-10 * mag
    compare(ctx, "%s: fit(a*d1 + b*d2) vs a*fit(d1) + b*fit(d2) with a=%r b=%r" % (name, a, b), comb, pc, tol)
    if ncomp(case) == 2:
        # superposition by components: a field with one component exactly zero everywhere (purely zonal / meridional motion) is data like any other
        zero = np.zeros_like(d1[0])
        pe_ = fit_predict(case, ea, na, [d1[0], zero], qe, qn)
        pn_ = fit_predict(case, ea, na, [zero, d1[1]], qe, qn)
        compare(ctx, "%s: fit((east, north)) vs fit((east, 0)) + fit((0, north))" % name, tuple(np.asarray(x) + np.asarray(y) for x, y in zip(pe_, pn_)), p1, tol)
    ctx.label(name)
    ctx.nt(len(e) >= 4)


# ---------------------------------------------------------------- large queries: the whole equals its pieces
@st.composite
def large_cases(draw):
    case = draw(base())
    case["large"] = dict(n=draw(st.sampled_from([1500, 4096, 10001, 30000])), seed=draw(st.integers(0, 10**6)), pieces=draw(st.integers(2, 9)),
                         shape2d=draw(st.booleans()))
    return case


def check_large(case, ctx):
    """A query of tens of thousands of points predicts exactly what its pieces predict (each point's prediction depends on that point only)."""
    e, n, _, _ = coords_of(case)
    if case["gridder"] in ("linear", "cubic"):
        from checks.c01 import scipy_accepts

        if not scipy_accepts(e, n, case["rescale"]):
            ctx.skip("scipy_cannot_triangulate")
    big = case["large"]
    rng = np.random.RandomState(big["seed"])  # a pure function of the generated case
    lo_e, hi_e, lo_n, hi_n = min(e), max(e), min(n), max(n)
    qe = lo_e + (hi_e - lo_e) * (rng.uniform(-0.1, 1.1, big["n"]) if hi_e > lo_e else np.zeros(big["n"]))
    qn = lo_n + (hi_n - lo_n) * (rng.uniform(-0.1, 1.1, big["n"]) if hi_n > lo_n else np.zeros(big["n"]))
    est = build.make_estimator(spec_for(case["gridder"], case))
    data = [np.array(d, dtype="float64") for d in case["data"]]
    quiet(est.fit, (np.array(e), np.array(n)), tuple(data[:2]) if ncomp(case) == 2 else data[0])
    shape = (big["n"],)
    if big["shape2d"]:
        rows = [k for k in (2, 3, 4, 5, 7) if big["n"] % k == 0]
        shape = (rows[-1], big["n"] // rows[-1]) if rows else shape
    whole = est.predict((qe.reshape(shape), qn.reshape(shape)))
    whole = whole if isinstance(whole, tuple) else (whole,)
    cuts = sorted(set(int(c) for c in rng.randint(1, big["n"], size=big["pieces"] - 1)))
    parts = [est.predict((a, b)) for a, b in zip(np.split(qe, cuts), np.split(qn, cuts))]
    for c in range(len(whole)):
        w = np.asarray(whole[c])
        ctx.check(w.shape == shape, "prediction of a %s query has shape %s", shape, w.shape)
        pieced = np.concatenate([np.ravel(p[c] if isinstance(p, tuple) else p) for p in parts])
        same = (w.ravel() == pieced) | (np.isnan(w.ravel()) & np.isnan(pieced))
        if not same.all():
            k = int(np.argmin(same))
            raise Violation("%s: point %d of a %d-point query is predicted as %r, the same point inside a piece of the query as %r (component %d)"
                            % (case["gridder"], k, big["n"], float(w.ravel()[k]), float(pieced[k]), c))
    ctx.label(case["gridder"], "n%d" % big["n"], "2d" if len(shape) == 2 else "1d")
    ctx.nt(True)


SUBCHECKS = [
    Sub("layout_dtype", check_layout, strategy=layout_cases(), quick=300, thorough=2000, shards_quick=4,
        doc="same element sequence as 2-D/Fortran/strided/Series arrays, integer dtypes, extra coordinates, for fit and query inputs; prediction has the query's shape"),
    Sub("permutation", check_permutation, strategy=permutation_cases(), quick=250, thorough=1500, shards_quick=4,
        doc="reordering the data points leaves predictions unchanged up to solver round-off"),
    Sub("large_query", check_large, strategy=large_cases(), quick=12, thorough=60, shards_quick=2, heavy=True,
        doc="a query of 1 500 - 30 000 points predicts bitwise what its pieces predict (chunked or vectorised evaluation must not couple the points)"),
    Sub("linearity", check_linearity, strategy=linearity_cases(), quick=250, thorough=1500, shards_quick=4,
        doc="fit(a*d1 + b*d2) = a*fit(d1) + b*fit(d2) for the gridders that are linear in the data"),
]
