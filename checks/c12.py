"""C12 - scores come from models fitted on training data only, with the stated metric."""
import warnings

import dask
import numpy as np
import verde as vd
from hypothesis import strategies as st
from sklearn.base import clone
from sklearn.model_selection import KFold, ShuffleSplit

from vlib import blocks, build, gen
from vlib.build import quiet
from vlib.runner import Sub, Violation

PROPERTY = "C12"
RULE = ("datasets on which the model does not fit perfectly (a smooth field plus generated noise), scalar and 2-component, weights none or non-uniform; "
        "estimators Trend, damped Spline, KNeighbors, Vector, Chain; scorers None/r2/neg MSE/neg RMSE/neg MAE; cross-validators: a harness-owned "
        "FixedSplits object yielding generated (train, test) index arrays, KFold, ShuffleSplit, BlockKFold, BlockShuffleSplit; serial and delayed "
        "execution under the synchronous scheduler, the threaded scheduler with 1..8 workers and one-at-a-time in a generated order; SplineCV damping "
        "grids; train_test_split with value-coded rows; non-trivial = >= 3 splits, an imperfect model (some score < 0.999 for r2) and (non-uniform "
        "weights or 2 components), or an alignment/selection check; distinct = SHA-1 of the case")
ASSUMPTIONS = [
    "expected scores: a fresh clone fitted by the harness on the training rows only (rows selected by the harness' own indexing), predicted on the test "
    "rows, and scored with the harness' own numpy formulas (weighted by the test weights, averaged over components); agreement to 1e-9",
    "the deprecated client= dispatch needs a dask.distributed cluster and is not exercised",
    "true OS-level interleavings inside dask's thread pool are sampled, not controlled; execution orders of the delayed graph are harness-owned",
    "test folds hold at least 2 points with non-constant data (R2 is undefined otherwise)",
]
SCORERS = [None, "r2", "neg_mean_squared_error", "neg_root_mean_squared_error", "neg_mean_absolute_error", "callable:mae", "make_scorer:mae", "callable:maxerr"]


def _callable_maxerr(estimator, X, y, sample_weight=None):
    """a scorer that is not an average over samples (and ignores weights): minus the largest absolute residual"""
    return -float(np.max(np.abs(np.asarray(y, dtype="float64").ravel() - np.asarray(estimator.predict(X), dtype="float64").ravel())))


def _callable_mae(estimator, X, y, sample_weight=None):
    """a plain function with scikit-learn's scorer signature"""
    p = np.asarray(estimator.predict(X), dtype="float64").ravel()
    y = np.asarray(y, dtype="float64").ravel()
    w = np.ones_like(y) if sample_weight is None else np.asarray(sample_weight, dtype="float64").ravel()
    return -float(np.sum(w * np.abs(y - p)) / np.sum(w))


def scoring_object(name):
    """what is handed to verde for a scoring entry of a case (names stay names; the two ':mae' entries are scorer objects)"""
    if name == "callable:mae":
        return _callable_mae
    if name == "callable:maxerr":
        return _callable_maxerr
    if name == "make_scorer:mae":
        from sklearn.metrics import make_scorer, mean_absolute_error

        return make_scorer(mean_absolute_error, greater_is_better=False)
    return name
ESTIMATORS = ["trend", "spline", "knn", "vector", "chain", "vector3"]
NCOMP = {"vector": 2, "vector3": 3}


class FixedSplits:
    """cross-validator owned by the harness: yields exactly the given index arrays"""

    def __init__(self, splits):
        self.splits = splits

    def split(self, X, y=None, groups=None):  # noqa: N803
        for tr, te in self.splits:
            yield np.array(tr, dtype=int), np.array(te, dtype=int)

    def get_n_splits(self, X=None, y=None, groups=None):  # noqa: N803
        return len(self.splits)


def metric(name, y, p, w):
    y, p = np.asarray(y, dtype="float64").ravel(), np.asarray(p, dtype="float64").ravel()
    w = np.ones_like(y) if w is None else np.asarray(w, dtype="float64").ravel()
    if name is None or name == "r2":
        ybar = np.sum(w * y) / np.sum(w)
        return 1.0 - np.sum(w * (y - p) ** 2) / np.sum(w * (y - ybar) ** 2)
    mse = np.sum(w * (y - p) ** 2) / np.sum(w)
    if name == "neg_mean_squared_error":
        return -mse
    if name == "neg_root_mean_squared_error":
        return -np.sqrt(mse)
    if name == "callable:maxerr":
        return -float(np.max(np.abs(y - p)))
    if name in ("neg_mean_absolute_error", "callable:mae", "make_scorer:mae"):
        return -np.sum(w * np.abs(y - p)) / np.sum(w)
    raise ValueError(name)


def est_spec(name, draw, scale):
    if name == "trend":
        return dict(kind="trend", degree=draw(st.integers(0, 2)))
    if name == "spline":
        return dict(kind="spline", damping=draw(st.sampled_from([1e-3, 1e-1, 10.0])))
    if name == "knn":
        return dict(kind="knn", k=draw(st.integers(1, 3)))
    if name == "vector":
        return dict(kind="vector", components=[dict(kind="trend", degree=draw(st.integers(0, 2))), dict(kind="spline", damping=draw(st.sampled_from([1e-2, 1.0])))])
    if name == "vector3":
        # three components with clearly different scores: their mean, median and first differ
        return dict(kind="vector", components=[dict(kind="trend", degree=draw(st.integers(0, 2))), dict(kind="knn", k=draw(st.integers(1, 3))), dict(kind="spline", damping=draw(st.sampled_from([1e-2, 1.0])))])
    return dict(kind="chain", steps=[dict(kind="trend", degree=1), dict(kind="spline", damping=draw(st.sampled_from([1e-2, 1.0])))])


@st.composite
def datasets(draw, min_n=12, max_n=40, force_comp=None):
    cloud = draw(gen.clouds(min_n=min_n, max_n=max_n, max_exp=3, min_exp=-1, ratios=[0.0, 0.0, 1.0, -10.0], aspects=(1.0, 1.0, 2.0), structures=gen.STRUCTURES))
    n = len(cloud["cells"])
    ncomp = force_comp or draw(st.sampled_from([1, 1, 2]))
    noise = [draw(st.lists(gen.finite(-1, 1), min_size=n, max_size=n)) for _ in range(ncomp)]
    weights = draw(st.one_of(st.none(), st.lists(gen.weights_values(n), min_size=ncomp, max_size=ncomp),
                             # all weights equal to a constant other than 1 (they still rescale the damping of a damped estimator)
                             st.sampled_from([0.01, 0.25, 4.0, 100.0]).map(lambda c: [[c] * n for _ in range(ncomp)])))
    return dict(cloud=cloud, ncomp=ncomp, noise=noise, weights=weights, amp=draw(st.sampled_from([0.05, 0.3, 1.0])))


def build_data(ds):
    es, ns = gen.cloud_xy(ds["cloud"])
    e, n = np.array(es), np.array(ns)
    c = ds["cloud"]
    u = np.array([a for a, b in c["cells"]], dtype="float64") / c["side"]
    v = np.array([b for a, b in c["cells"]], dtype="float64") / c["side"]
    data = []
    for k in range(ds["ncomp"]):
        smooth = (k + 1) * (1.0 + 2.0 * u - 1.5 * v + np.sin(3 * u + k) * np.cos(2 * v))
        data.append(smooth + ds["amp"] * np.array(ds["noise"][k]))
    weights = None if ds["weights"] is None else [np.array(w) for w in ds["weights"]]
    return e, n, data, weights


@st.composite
def cv_cases(draw):
    name = draw(st.sampled_from(ESTIMATORS))
    ds = draw(datasets(force_comp=NCOMP.get(name, 1)))
    n = len(ds["cloud"]["cells"])
    spec = est_spec(name, draw, ds["cloud"]["scale"])
    cvkind = draw(st.sampled_from(["fixed", "fixed", "kfold", "shuffle", "blockkfold", "blockshuffle", "default"]))
    cv = dict(kind=cvkind, seed=draw(st.integers(0, 10**6)), n_splits=draw(st.integers(2, 5)))
    if cvkind == "fixed":
        nsplits = draw(st.integers(1, 5))
        splits = []
        for _ in range(nsplits):
            perm = list(draw(st.permutations(range(n))))
            ntest = draw(st.integers(2, max(2, n // 2)))
            ntrain = draw(st.integers(max(6, n // 3), n - ntest))
            splits.append([sorted(perm[ntest:ntest + ntrain]), perm[:ntest]])
        cv["splits"] = splits
    return dict(dataset=ds, estimator=spec, scoring=draw(st.sampled_from(SCORERS)), cv=cv, schedule=draw(st.sampled_from(["sync", "threads", "one_at_a_time"])),
                workers=draw(st.integers(1, 8)), order_seed=draw(st.integers(0, 10**6)), shape2d=draw(st.booleans()), orders=draw(build.orders_strategy()))


def make_cv(cv, scale):
    k = cv["kind"]
    if k == "fixed":
        return FixedSplits(cv["splits"])
    if k == "kfold":
        return KFold(n_splits=cv["n_splits"], shuffle=True, random_state=cv["seed"])
    if k == "shuffle":
        return ShuffleSplit(n_splits=cv["n_splits"], test_size=0.3, random_state=cv["seed"])
    if k == "blockkfold":
        return vd.BlockKFold(n_splits=2, spacing=scale * 3.0, shuffle=True, random_state=cv["seed"])
    if k == "blockshuffle":
        return vd.BlockShuffleSplit(n_splits=cv["n_splits"], spacing=scale * 2.0, test_size=0.3, random_state=cv["seed"])
    return None


def pack(arrs):
    return arrs[0] if len(arrs) == 1 else tuple(arrs)


def deep_state(est, prefix=""):
    """names of all attributes (recursively through Chain steps and Vector components) plus the parameters' reprs: cross-validation must leave it unchanged"""
    out = {prefix + "vars": sorted(vars(est)), prefix + "params": repr(est.get_params())}
    for i, sub in enumerate([s for _, s in getattr(est, "steps", [])] + list(getattr(est, "components", []))):
        out.update(deep_state(sub, prefix + "%d." % i))
    return out


def own_scores(spec, scoring, coords, data, weights, splits):
    """scores of fresh clones fitted on the training rows only and evaluated on the test rows only"""
    out = []
    flat_c = [np.ravel(c) for c in coords]
    flat_d = [np.ravel(d) for d in data]
    flat_w = None if weights is None else [np.ravel(w) for w in weights]
    for tr, te in splits:
        est = build.make_estimator(spec)
        ctr = tuple(c[tr] for c in flat_c)
        cte = tuple(c[te] for c in flat_c)
        quiet(est.fit, ctr, pack([d[tr] for d in flat_d]), None if flat_w is None else pack([w[tr] for w in flat_w]))
        pred = est.predict(cte)
        pred = pred if isinstance(pred, tuple) else (pred,)
        vals = [metric(scoring, flat_d[k][te], pred[k], None if flat_w is None else flat_w[k][te]) for k in range(len(flat_d))]
        out.append(float(np.mean(vals)))
    return np.array(out)


def check_cv(case, ctx):
    ds = case["dataset"]
    e, n, data, weights = build_data(ds)
    if case["shape2d"] and e.size % 2 == 0:
        shp = (2, e.size // 2) if e.size % 3 else (3, e.size // 3)
        lay = build.Lay(case.get("orders"))
        e, n = lay(e, shp), lay(n, shp)
        data = [lay(d, shp) for d in data]
        weights = None if weights is None else [lay(w, shp) for w in weights]
    spec, scoring = case["estimator"], case["scoring"]
    cv = make_cv(case["cv"], ds["cloud"]["scale"])
    X = np.transpose([np.ravel(e), np.ravel(n)])
    try:
        ref_cv = cv if cv is not None else KFold(shuffle=True, random_state=0, n_splits=5)
        with warnings.catch_warnings():
            warnings.simplefilter("ignore")
            splits = [(np.array(a), np.array(b)) for a, b in ref_cv.split(X)]
    except ValueError:
        ctx.skip("cross_validator_rejects_layout")
    for tr, te in splits:
        if te.size < 2 or tr.size < 6 or any(np.ptp(np.ravel(d)[te]) == 0 for d in data):
            ctx.skip("fold_too_small_for_r2")
    est = build.make_estimator(spec)
    params_before = repr(est.get_params())
    vars_before = sorted(vars(est))
    deep_before = deep_state(est)
    d_arg, w_arg = pack(data), None if weights is None else pack(weights)
    kw = dict(cv=cv, scoring=scoring_object(scoring))
    serial = np.asarray(quiet(vd.cross_val_score, est, (e, n), d_arg, weights=w_arg, **kw))
    ctx.check(serial.dtype.kind in "fi", "cross_val_score (not asked for delayed results) returned %s objects instead of numbers", type(np.ravel(serial)[0]).__name__ if serial.size else "no")
    ctx.check(serial.shape == (len(splits),), "cross_val_score returned %s scores for %d splits", serial.shape, len(splits))
    exp = own_scores(spec, scoring, (e, n), data, weights, splits)
    tol = 1e-9 * np.maximum(np.abs(exp), 1.0)
    if not np.all(np.abs(serial - exp) <= tol):
        k = int(np.argmax(np.abs(serial - exp) - tol))
        raise Violation("split %d: cross_val_score(scoring=%r) = %.12g, a fresh clone fitted on the training rows only and scored on the test rows only gives %.12g "
                        "(estimator %r, weights %s, %d components)" % (k, scoring, serial[k], exp[k], spec, "given" if weights is not None else "none", len(data)))
    ctx.check(repr(est.get_params()) == params_before and sorted(vars(est)) == vars_before, "cross_val_score modified or fitted the estimator it was given")
    ctx.check(deep_state(est) == deep_before, "cross_val_score fitted or modified a nested step/component of the estimator it was given")
    # delayed execution under harness-owned schedules
    delayed = quiet(vd.cross_val_score, est, (e, n), d_arg, weights=w_arg, delayed=True, **kw)
    ctx.check(len(delayed) == len(splits), "delayed=True returned %d tasks for %d splits", len(delayed), len(splits))
    with warnings.catch_warnings():
        warnings.simplefilter("ignore")
        if case["schedule"] == "sync":
            got = dask.compute(*delayed, scheduler="synchronous")
        elif case["schedule"] == "threads":
            got = dask.compute(*delayed, scheduler="threads", num_workers=case["workers"])
        else:
            order = np.random.RandomState(case["order_seed"]).permutation(len(delayed))  # deterministic function of the generated case
            got = [None] * len(delayed)
            for i in order:
                got[i] = delayed[i].compute(scheduler="synchronous")
    got = np.asarray(got, dtype="float64")
    if not np.array_equal(got, serial):
        raise Violation("delayed scores (%s schedule, %d workers) differ from the serial scores: %r vs %r" % (case["schedule"], case["workers"], got.tolist(), serial.tolist()))
    ctx.check(repr(est.get_params()) == params_before and sorted(vars(est)) == vars_before and deep_state(est) == deep_before,
              "delayed cross_val_score modified the estimator it was given")
    ctx.label(spec["kind"], "scoring_%s" % scoring, "cv_" + case["cv"]["kind"], case["schedule"], "weights" if weights is not None else "noweights", "comps%d" % len(data))
    imperfect = scoring not in (None, "r2") or np.any(exp < 0.999)
    nonuniform = weights is not None and any(len(set(np.round(np.ravel(w), 12))) > 1 for w in weights)
    ctx.nt(len(splits) >= 3 and imperfect and (nonuniform or len(data) == 2))


# ---------------------------------------------------------------- score()
@st.composite
def score_cases(draw):
    name = draw(st.sampled_from(ESTIMATORS))
    ds = draw(datasets(force_comp=NCOMP.get(name, 1), min_n=8))
    return dict(dataset=ds, estimator=est_spec(name, draw, ds["cloud"]["scale"]), other=draw(datasets(force_comp=NCOMP.get(name, 1), min_n=6, max_n=20)))


def check_score(case, ctx):
    e, n, data, weights = build_data(case["dataset"])
    est = build.make_estimator(case["estimator"])
    quiet(est.fit, (e, n), pack(data), None if weights is None else pack(weights))
    # score on another dataset (so the number is not trivially ~1)
    oe, on, odata, ow = build_data(case["other"])
    oe, on = oe * 0 + np.interp(np.linspace(0, 1, oe.size), [0, 1], [e.min(), e.max()]), on * 0 + np.interp(np.linspace(0, 1, on.size)[::-1], [0, 1], [n.min(), n.max()])
    if any(np.ptp(d) == 0 for d in odata):
        ctx.skip("constant_test_data")
    got = quiet(est.score, (oe, on), pack(odata), None if ow is None else pack(ow))
    pred = est.predict((oe, on))
    pred = pred if isinstance(pred, tuple) else (pred,)
    exp = float(np.mean([metric("r2", odata[k], pred[k], None if ow is None else ow[k]) for k in range(len(odata))]))
    ctx.check(abs(got - exp) <= 1e-9 * max(abs(exp), 1.0), "score() = %.12g, weighted R2 of predict() = %.12g", got, exp)
    ctx.label(case["estimator"]["kind"], "weights" if ow is not None else "noweights")
    ctx.nt(ow is not None or len(odata) >= 2)


# ---------------------------------------------------------------- train_test_split
@st.composite
def tts_cases(draw):
    lay = draw(blocks.layouts(max_blocks=4, presentations=("inferred", "inferred_spacing")))
    pts = draw(blocks.interior_points(lay, min_points=6, max_points=40, min_per_block=0, max_per_block=6))
    pts = pts + blocks.corner_points(lay)
    n = len(pts)
    return dict(layout=lay, points=pts, ncomp=draw(st.integers(1, 3)), weights=draw(st.sampled_from(["none", "given"])), blocked=draw(st.booleans()),
                seed=draw(st.integers(0, 10**6)), test_size=draw(st.sampled_from([0.1, 0.25, 0.5, 2])), shape=draw(st.sampled_from(blocks.shape_options(n))),
                extra=draw(st.booleans()), orders=draw(build.orders_strategy()), container=draw(st.sampled_from(build.CONTAINERS)),
                train_size=draw(st.sampled_from([None, None, 0.6, 3])))


def check_tts(case, ctx):
    lay = case["layout"]
    shape = case["shape"]
    xy = [blocks.point_xy(lay, p) for p in case["points"]]
    n = len(xy)
    lay_ = build.Lay(case.get("orders"))
    e = lay_([p[0] for p in xy], shape)
    nn = lay_([p[1] for p in xy], shape)
    e, nn = blocks.pixel_array(lay, e), blocks.pixel_array(lay, nn)
    rows = np.arange(n, dtype="float64")
    coords = (e, nn) + ((lay_(rows + 0.5, shape),) if case["extra"] else ())
    data = tuple(lay_(1000.0 * (c + 1) + rows, shape) for c in range(case["ncomp"]))
    weights = None if case["weights"] == "none" else tuple(lay_(0.001 * (c + 1) + rows + 1, shape) for c in range(case["ncomp"]))
    kw = dict(random_state=case["seed"], test_size=case["test_size"])
    if case.get("train_size") is not None:
        kw = dict(random_state=case["seed"], train_size=case["train_size"])
        # (train_size and test_size both given and summing to less than the whole is a request for non-complementary subsets: outside the property)
    mem = None
    if case["blocked"]:
        bkw = blocks.verde_kwargs(lay)
        kw.update(bkw)
        mem = blocks.exact_membership(e.ravel(), nn.ravel(), bkw, (e, nn))
        if mem is None:
            ctx.skip("ambiguous_membership")
    d_arg = data[0] if case["ncomp"] == 1 else data
    w_arg = None if weights is None else (weights[0] if case["ncomp"] == 1 else weights)
    try:
        P = lambda a: build.present(a, case.get("container"))  # noqa: E731
        wrap = lambda x: None if x is None else (tuple(P(a) for a in x) if isinstance(x, tuple) else P(x))  # noqa: E731
        train, test = vd.train_test_split(wrap(coords), wrap(d_arg), wrap(w_arg), **kw)
    except ValueError:
        ctx.skip("sizes_impossible_for_this_many_rows_or_blocks")
    idx = {}
    for name, part in (("train", train), ("test", test)):
        ctx.check(len(part) == 3, "%s must be (coordinates, data, weights)", name)
        pc, pdata, pw = part
        ctx.check(len(pc) == len(coords) and len(pdata) == case["ncomp"], "%s has %d coordinate and %d data arrays", name, len(pc), len(pdata))
        r = np.asarray(pdata[0]) - 1000.0
        ctx.check(np.all(r == np.round(r)) and r.ndim == 1, "%s data rows are not whole rows of the input", name)
        r = r.astype(int)
        for c in range(case["ncomp"]):
            ctx.check(np.array_equal(np.asarray(pdata[c]), 1000.0 * (c + 1) + r), "%s: data component %d is not aligned with component 0", name, c)
        ctx.check(np.array_equal(np.asarray(pc[0]), e.ravel()[r]) and np.array_equal(np.asarray(pc[1]), nn.ravel()[r]), "%s: coordinates are not aligned with the data rows", name)
        if case["extra"]:
            ctx.check(np.array_equal(np.asarray(pc[2]), r + 0.5), "%s: extra coordinate not aligned", name)
        if weights is None:
            ctx.check(all(w is None for w in pw), "%s: weights invented", name)
        else:
            for c in range(case["ncomp"]):
                ctx.check(np.array_equal(np.asarray(pw[c]), 0.001 * (c + 1) + r + 1), "%s: weight component %d is not aligned with the data rows", name, c)
        idx[name] = r
    ctx.check(len(set(idx["train"]) & set(idx["test"])) == 0, "rows appear in both the training and the testing set")
    ctx.check(sorted(idx["train"].tolist() + idx["test"].tolist()) == list(range(n)), "training and testing sets do not cover every row exactly once")
    ctx.check(idx["test"].size >= 1 and idx["train"].size >= 1, "empty side")
    if mem is not None:
        labels = np.array(mem[1])
        both = set(labels[idx["train"]].tolist()) & set(labels[idx["test"]].tolist())
        ctx.check(not both, "blocks %s have rows on both sides of a blocked split", sorted(both))
    again = vd.train_test_split(wrap(coords), wrap(d_arg), wrap(w_arg), **kw)
    ctx.check(np.array_equal(np.asarray(again[1][1][0]), np.asarray(test[1][0])), "train_test_split is not reproducible for a fixed random_state")
    ctx.label("blocked" if case["blocked"] else "random", "comps%d" % case["ncomp"], "weights" if weights is not None else "noweights", "ndim%d" % len(shape))
    ctx.nt(True)


# ---------------------------------------------------------------- SplineCV
@st.composite
def splinecv_cases(draw):
    ds = draw(datasets(min_n=12, max_n=30, force_comp=1))
    n = len(ds["cloud"]["cells"])
    nd = draw(st.integers(1, 4))
    dampings = draw(st.lists(st.sampled_from([1e-6, 1e-4, 1e-2, 1e-1, 1.0, 10.0, 1e3]), min_size=nd, max_size=nd, unique=True))
    nsplits = draw(st.integers(2, 4))
    splits = []
    for _ in range(nsplits):
        perm = list(draw(st.permutations(range(n))))
        ntest = draw(st.integers(3, max(3, n // 3)))
        splits.append([sorted(perm[ntest:]), perm[:ntest]])
    m = draw(st.integers(1, 6))
    return dict(dataset=ds, dampings=dampings, splits=splits, scoring=draw(st.sampled_from([None, "neg_mean_squared_error", "r2"])), delayed=draw(st.booleans()),
                query=[[draw(gen.finite(0, ds["cloud"]["side"])), draw(gen.finite(0, ds["cloud"]["side"]))] for _ in range(m)],
                use_none=draw(st.booleans()), mindists=draw(st.sampled_from([None, None, [0.0, 0.5], [1.0, 0.0, 0.25]])))


def check_splinecv(case, ctx):
    ds = case["dataset"]
    e, n, data, weights = build_data(ds)
    d, w = data[0], None if weights is None else weights[0]
    for tr, te in case["splits"]:
        if np.ptp(d[te]) == 0:
            ctx.skip("constant_test_data")
    dampings = list(case["dampings"])
    if case["use_none"]:
        dampings = [None] + dampings
    cv = FixedSplits(case["splits"])
    mindists = None if case.get("mindists") is None else [m * ds["cloud"]["scale"] for m in case["mindists"]]
    # the candidates as a "list (or other iterable)": tuple, list, array, or a one-shot iterator / generator
    def as_iterable(vals, byte):
        form = ["tuple", "list", "array", "iterator", "generator"][build.small_hash(case, byte) % 5]
        if form == "array" and any(v is None for v in vals):
            form = "list"
        return {"tuple": tuple, "list": list, "array": np.array, "iterator": lambda v: iter(list(v)), "generator": lambda v: (x for x in list(v))}[form](vals), form

    damp_arg, damp_form = as_iterable(dampings, 7)
    mkw = {}
    if mindists is not None:
        mkw["mindists"], md_form = as_iterable(mindists, 8)
    scv = quiet(vd.SplineCV, dampings=damp_arg, cv=cv, scoring=case["scoring"], delayed=case["delayed"], **mkw)
    quiet(scv.fit, (e, n), d, w)
    scores = scv.scores_
    if case["delayed"]:
        with warnings.catch_warnings():
            warnings.simplefilter("ignore")
            scores = np.asarray(dask.compute(*scores, scheduler="synchronous"), dtype="float64")
    else:
        ctx.check(all(isinstance(s, (float, int, np.floating, np.integer)) for s in np.ravel(np.asarray(scores, dtype=object))),
                  "SplineCV(delayed=False).scores_ holds %s objects instead of numbers", type(np.ravel(np.asarray(scores, dtype=object))[0]).__name__)
    scores = np.asarray(scores, dtype="float64")
    exp = []
    splits = [(np.array(a), np.array(b)) for a, b in case["splits"]]
    candidates = [(md, damp) for md in (mindists or [None]) for damp in dampings]
    for md, damp in candidates:
        exp.append(float(np.mean(own_scores(dict(kind="spline", damping=damp, mindist=md if md else None), case["scoring"], (e, n), [d], None if w is None else [w], splits))))
    exp = np.array(exp)
    dampings = [c[1] for c in candidates]
    ctx.check(scores.shape == exp.shape, "scores_ has shape %s for %d candidates", scores.shape, len(dampings))
    # an undamped candidate on ill-conditioned folds is only loosely reproducible: compare with a conditioning-free tolerance on damped ones
    tol = 1e-7 * np.maximum(np.abs(exp), 1.0)
    loose = np.array([dm is None for dm in dampings])
    if not np.all((np.abs(scores - exp) <= tol) | loose):
        k = int(np.argmax(np.where(loose, 0, np.abs(scores - exp) - tol)))
        raise Violation("SplineCV scores_[%d] (damping %r) = %.12g, mean of independently cross-validated scores = %.12g" % (k, dampings[k], scores[k], exp[k]))
    best = int(np.argmax(scores))
    gap = np.sort(scores)[-1] - np.sort(scores)[-2] if len(scores) > 1 else 1.0
    if len(scores) > 1 and gap <= 1e-9 * max(abs(scores[best]), 1.0):
        ctx.skip("best_candidates_tied")
    ctx.check(scv.damping_ == dampings[best] and (mindists is None or scv.mindist_ == candidates[best][0]),
              "SplineCV selected (mindist, damping) = (%r, %r), the highest mean score belongs to %r (scores %r)", scv.mindist_, scv.damping_, candidates[best], scores.tolist())
    ref = quiet(vd.Spline, damping=dampings[best], **({} if not candidates[best][0] else dict(mindist=candidates[best][0])))
    quiet(ref.fit, (e, n), d, w)
    qe, qn = (np.array(v) for v in gen.cloud_query(ds["cloud"], case["query"]))
    ctx.check(np.array_equal(np.asarray(scv.predict((qe, qn))), np.asarray(ref.predict((qe, qn)))), "SplineCV does not predict like a Spline with the selected parameters fitted to all the data")
    ctx.check(np.allclose(scv.region_, ref.region_) and np.array_equal(scv.force_, ref.force_), "SplineCV attributes differ from the refitted Spline's")
    ctx.label("candidates%d" % len(dampings), "scoring_%s" % case["scoring"], "delayed" if case["delayed"] else "serial", "weights" if w is not None else "noweights", "dampings_as_" + damp_form)
    ctx.nt(len(dampings) >= 2 and len(case["splits"]) >= 2)


# ---------------------------------------------------------------- large data sets
@st.composite
def large_cases(draw):
    return dict(n=draw(st.sampled_from([3000, 12000])), seed=draw(st.integers(0, 10**6)), est=draw(st.sampled_from(["trend", "knn", "vector"])), scoring=draw(st.sampled_from(SCORERS)),
                weights=draw(st.booleans()), n_splits=draw(st.integers(2, 6)), delayed=draw(st.booleans()), blocked=draw(st.booleans()))


def check_large(case, ctx):
    """thousands of points: every fold's score against a fresh clone fitted on the training rows only; train_test_split rows stay aligned"""
    rng = np.random.RandomState(case["seed"])  # a pure function of the generated case
    n = case["n"]
    e, nn = rng.uniform(0, 100, n), rng.uniform(-50, 0, n)
    d1 = 3.0 + 0.02 * e - 0.05 * nn + np.sin(e / 9.0) + 0.1 * rng.standard_normal(n)
    d2 = -1.0 + 0.001 * e * nn + 0.1 * rng.standard_normal(n)
    spec = {"trend": dict(kind="trend", degree=2), "knn": dict(kind="knn", k=4), "vector": dict(kind="vector", components=[dict(kind="trend", degree=1), dict(kind="knn", k=2)])}[case["est"]]
    data = [d1, d2] if case["est"] == "vector" else [d1]
    weights = None if not case["weights"] or case["est"] == "knn" else [np.round(rng.uniform(0.5, 3.0, n) * 8) / 8 for _ in data]
    cv = vd.BlockKFold(n_splits=case["n_splits"], spacing=10.0, shuffle=True, random_state=case["seed"] % 991) if case["blocked"] else KFold(n_splits=case["n_splits"], shuffle=True, random_state=case["seed"] % 991)
    with warnings.catch_warnings():
        warnings.simplefilter("ignore")
        splits = [(np.array(a), np.array(b)) for a, b in cv.split(np.column_stack([e, nn]))]
    est = build.make_estimator(spec)
    got = quiet(vd.cross_val_score, est, (e, nn), pack(data), weights=None if weights is None else pack(weights), cv=cv, scoring=scoring_object(case["scoring"]), delayed=case["delayed"])
    if case["delayed"]:
        got = dask.compute(*got, scheduler="synchronous")
    got = np.asarray(got, dtype="float64")
    exp = own_scores(spec, case["scoring"], (e, nn), data, weights, splits)
    ctx.check(got.shape == exp.shape, "%d scores for %d splits", got.size, exp.size)
    bad = np.abs(got - exp) > 1e-9 * np.maximum(np.abs(exp), 1.0)
    if bad.any():
        k = int(np.argmax(bad))
        raise Violation("%d points, split %d: cross_val_score(scoring=%r) = %.12g, a fresh clone fitted on the training rows only gives %.12g (estimator %s, weights %s)" % (
            n, k, case["scoring"], got[k], exp[k], case["est"], "given" if weights is not None else "none"))
    # train_test_split keeps rows together
    rows = np.arange(n, dtype="float64")
    train, test = vd.train_test_split((e, nn), (rows, rows + 0.5), random_state=case["seed"] % 991, test_size=0.3)
    for part in (train, test):
        pc, pd_, _ = part
        ctx.check(np.array_equal(np.asarray(pd_[0]) + 0.5, np.asarray(pd_[1])) and np.array_equal(e[np.asarray(pd_[0]).astype(int)], np.asarray(pc[0])) and np.array_equal(nn[np.asarray(pd_[0]).astype(int)], np.asarray(pc[1])),
                  "train_test_split of %d points separated coordinates from their data rows", n)
    ctx.check(np.array_equal(np.sort(np.concatenate([np.asarray(train[1][0]), np.asarray(test[1][0])])), rows), "train and test rows of %d points are not complementary", n)
    ctx.label(case["est"], "n%d" % n, "scoring_%s" % case["scoring"], "delayed" if case["delayed"] else "serial", "blocked" if case["blocked"] else "kfold")
    ctx.nt(True)


SUBCHECKS = [
    Sub("cross_val_score", check_cv, strategy=cv_cases(), quick=100, thorough=600, shards_quick=4,
        doc="cross_val_score vs independently fitted/scored clones per split; estimator untouched; delayed results under three harness-owned schedules equal the serial scores"),
    Sub("score", check_score, strategy=score_cases(), quick=150, thorough=800, shards_quick=2,
        doc="score() equals the weighted R2 of predict(), averaged over components"),
    Sub("train_test_split", check_tts, strategy=tts_cases(), quick=300, thorough=1500, shards_quick=2,
        doc="complementary row subsets with coordinates, every data and every weight component aligned (value-coded rows); whole blocks with spacing/shape"),
    Sub("splinecv", check_splinecv, strategy=splinecv_cases(), quick=60, thorough=400, shards_quick=4,
        doc="SplineCV scores_ = means of independent cross-validated scores, selection = arg-max, prediction = Spline with the selected parameters on all data"),
    Sub("large", check_large, strategy=large_cases(), quick=6, thorough=40, heavy=True,
        doc="3 000 - 12 000 points: per-fold scores (serial and delayed, blocked and plain folds) against fresh clones; train_test_split keeps rows aligned and complementary"),
]
