"""C15 - nearest-neighbour based results agree with brute-force distances."""
import numpy as np
import verde as vd
import xarray as xr
from hypothesis import strategies as st

from vlib import blocks, build, gen
from vlib.runner import Sub, Violation

PROPERTY = "C15"
RULE = ("data and query clouds (integer lattices with exact distances, scattered floats, clustered, far-away queries; 1-D/2-D shapes), every k from "
        "1 to the number of points, reductions mean/median/min/max, k_nearest 1..n-1, maxdist values including exact data-query distances, "
        "anisotropic projections, non-square grids; non-trivial = (k >= 2 or a projection or a 2-D query) and at least 5 data points and at least "
        "one compared query; distinct = SHA-1 of the case")
ASSUMPTIONS = [
    "data points are pairwise distinct; a query whose k-th and (k+1)-th nearest distances differ by less than 1e-9 (relative) is not compared (ties)",
    "mask comparisons skip queries with |d_min - maxdist| <= 1e-9*maxdist, except on the integer lattice with integer maxdist where squared distances are compared exactly",
]
def _rms(a, axis=None):
    return np.sqrt(np.mean(np.square(np.asarray(a, dtype="float64")), axis=axis))


# (the last three are not the identity on a single value: the reduction must be applied for k = 1 as well)
REDS = {"mean": np.mean, "median": np.median, "min": np.min, "max": np.max, "rms": _rms, "ptp": np.ptp, "std": np.std}


@st.composite
def clouds(draw, min_n=1, max_n=30):
    mode = draw(st.sampled_from(["lattice", "free", "clustered", "fullgrid"]))
    n = draw(st.integers(min_n, max_n))
    if mode == "fullgrid":
        # every node of an evenly spaced grid (a previously gridded data set fed back in), stored row-major or column-major, each axis ascending or descending
        p, q = draw(st.integers(1, 6)), draw(st.integers(1, 6))
        while p * q < min_n:
            q += 1
        dx, dy = draw(st.sampled_from([1.0, 0.5, 2.5, 1000.0])), draw(st.sampled_from([1.0, 0.5, 2.5, 1000.0]))
        x0, y0 = draw(st.sampled_from([0.0, -3.0, 512000.0])), draw(st.sampled_from([0.0, 10.0, -7.52e6]))
        xs = [x0 + i * dx for i in range(p)][:: draw(st.sampled_from([1, -1]))]
        ys = [y0 + j * dy for j in range(q)][:: draw(st.sampled_from([1, -1]))]
        pts = [[x, y] for y in ys for x in xs] if draw(st.booleans()) else [[x, y] for x in xs for y in ys]
        return "free", pts
    if mode == "lattice":
        cells = draw(st.lists(st.tuples(st.integers(-12, 12), st.integers(-12, 12)), min_size=n, max_size=n, unique=True))
        pts = [[float(a), float(b)] for a, b in cells]
    elif mode == "free":
        cells = draw(st.lists(st.tuples(st.integers(0, 15), st.integers(0, 15)), min_size=n, max_size=n, unique=True))
        scale = draw(gen.log_uniform(-2, 4))
        off = draw(st.sampled_from([0.0, 100.0, -1e4, 512000.0, -7.52e6]))  # also UTM-sized coordinates with a (sub-)metre spacing
        pts = [[off + scale * (a + gen.JITTER[(a * 7 + b * 3) % 12]), off + scale * (b + gen.JITTER[(a * 5 + b * 11 + 4) % 12])] for a, b in cells]
    else:
        cells = draw(st.lists(st.tuples(st.integers(0, 3), st.integers(0, 3), st.integers(0, 11), st.integers(0, 11)), min_size=n, max_size=n, unique=True))
        pts = [[100.0 * a + gen.JITTER[c] * 0.01 + 0.001 * d, 100.0 * b + gen.JITTER[d] * 0.01 + 0.002 * c] for a, b, c, d in cells]
    return mode, pts


@st.composite
def queries(draw, mode, data_pts, max_n=20):
    m = draw(st.integers(1, max_n))
    out = []
    for _ in range(m):
        kind = draw(st.sampled_from(["data", "near", "lattice", "far"]))
        p = draw(st.sampled_from(data_pts))
        if kind == "data":
            out.append(list(p))
        elif kind == "near":
            out.append([p[0] + draw(gen.finite(-1, 1)) * 0.37, p[1] + draw(gen.finite(-1, 1)) * 0.29])
        elif kind == "lattice":
            out.append([float(draw(st.integers(-15, 15))), float(draw(st.integers(-15, 15)))] if mode == "lattice" else
                       [p[0] * 1.0 + draw(st.integers(-3, 3)), p[1] + draw(st.integers(-3, 3))])
        else:
            out.append([p[0] + draw(gen.finite(-1e4, 1e4)), p[1] + draw(gen.finite(-1e4, 1e4))])
    return out


def proj_from(desc):
    if desc is None:
        return None
    if len(desc) == 4:
        # non-separable linear map (rotation + shear): projected easting depends on northing and vice versa
        a, b, c, d = desc
        return lambda e, n: (a * np.asarray(e) + b * np.asarray(n), c * np.asarray(e) + d * np.asarray(n))
    ax, ay = desc
    return lambda e, n: (ax * np.asarray(e), ay * np.asarray(n))


def dist_matrix(q, d):
    q, d = np.asarray(q, dtype="float64"), np.asarray(d, dtype="float64")
    return np.hypot(q[:, None, 0] - d[None, :, 0], q[:, None, 1] - d[None, :, 1])


# ---------------------------------------------------------------- KNeighbors
@st.composite
def knn_cases(draw):
    mode, pts = draw(clouds(min_n=1))
    n = len(pts)
    qs = draw(queries(mode, pts))
    coord_dtype = draw(st.sampled_from(blocks.PIXEL_DTYPES + ["uint8"]))
    if coord_dtype:
        # pixel positions: integer-valued data and query coordinates in an unsigned / narrow / single-precision dtype, queries also outside the data's bounding box
        o, sx, sy = draw(st.sampled_from([0, 20, 100])), draw(st.sampled_from([1, 2, 3, 5])), draw(st.sampled_from([1, 2, 3, 5]))
        cells = draw(st.lists(st.tuples(st.integers(0, 15), st.integers(0, 15)), min_size=1, max_size=25, unique=True))
        pts = [[float(o + sx * a), float(o + sy * b)] for a, b in cells]
        n = len(pts)
        qs = draw(st.lists(st.tuples(st.integers(max(0, o - 20), o + 15 * sx + 20), st.integers(max(0, o - 20), o + 15 * sy + 20)), min_size=1, max_size=20))
        qs = [[float(a), float(b)] for a, b in qs]
        mode = "pixel"
    # re-occupied stations: the same position more than once, each time with its own value
    for i in draw(st.lists(st.integers(0, n - 1), max_size=3)) if draw(st.integers(0, 2)) == 0 else []:
        pts = pts + [list(pts[i])]
    n = len(pts)
    vals = draw(st.lists(st.one_of(st.integers(-100, 100).map(float), gen.finite(-1e3, 1e3)), min_size=n, max_size=n))
    return dict(mode=mode, data=pts, values=vals, query=qs, k=draw(st.one_of(st.just(1), st.integers(1, n))), reduction=draw(st.sampled_from(list(REDS))),
                dshape=draw(st.sampled_from(blocks.shape_options(n))), qshape=draw(st.sampled_from(blocks.shape_options(len(qs)))),
                extra=draw(st.booleans()), orders=draw(build.orders_strategy()), container=draw(st.sampled_from(build.CONTAINERS)), int_data=draw(st.booleans()),
                coord_dtype=coord_dtype, table=draw(st.sampled_from(build.TABLES)), qtable=draw(st.sampled_from(build.TABLES)))


def check_knn(case, ctx):
    d = np.array(case["data"])
    q = np.array(case["query"])
    vals = np.array(case["values"])
    k = case["k"]
    dshape, qshape = case["dshape"], case["qshape"]
    lay = build.Lay(case.get("orders"))
    cdt = case.get("coord_dtype") or "float64"
    coords = build.table_views(lay(d[:, 0], dshape, cdt), lay(d[:, 1], dshape, cdt), case.get("table")) + ((np.zeros(dshape),) if case["extra"] else ())
    kn = vd.KNeighbors(k=k, reduction=REDS[case["reduction"]]) if (k, case["reduction"]) != (1, "mean") else vd.KNeighbors()
    P = lambda a: build.present(a, case.get("container"))  # noqa: E731
    if case.get("int_data"):
        vals = np.round(vals)  # integer-valued data in an integer dtype: the mean of k of them is generally not an integer
    vals_arr = lay(vals, dshape, "int64" if case.get("int_data") else "float64")
    prefit = build.small_hash(case, 13) % 3 == 0
    if prefit:
        # the same object was used before on a tiny survey (fewer points than k, elsewhere): nothing of that may carry over to the judged fit
        try:
            kn.fit((np.array([d[0, 0] - 7.0, d[0, 0] - 5.5]), np.array([d[0, 1] + 3.0, d[0, 1] + 4.0])), np.array([-17.0, 23.0]))
            kn.predict((np.array([d[0, 0] - 6.0]), np.array([d[0, 1] + 3.5])))
        except Exception:  # noqa: BLE001 - more neighbours than points may be refused; only the side effects matter here
            pass
    kn.fit(tuple(P(c) for c in coords), P(vals_arr))
    qcoords = tuple(P(c) for c in build.table_views(lay(q[:, 0], qshape, cdt), lay(q[:, 1], qshape, cdt), case.get("qtable")))
    pred = np.asarray(kn.predict(qcoords))
    ctx.check(pred.shape == tuple(qshape), "prediction shape %s, query shape %s", pred.shape, tuple(qshape))
    D = dist_matrix(q, d)
    flat = pred.ravel()
    compared = 0
    for i in range(q.shape[0]):
        order = np.argsort(D[i], kind="stable")
        ds = D[i][order]
        if k < d.shape[0]:
            gap = ds[k] - ds[k - 1]
            if gap <= 1e-9 * max(ds[k], 1e-300):
                continue
        exp = float(REDS[case["reduction"]](vals[order[:k]]))
        scale = float(np.max(np.abs(vals[order[:k]]))) or 1.0
        if abs(flat[i] - exp) > 1e-12 * scale:
            raise Violation("query %r: predicted %r, %s of the values of its %d nearest data points %r is %r" % (
                q[i].tolist(), float(flat[i]), case["reduction"], k, vals[order[:k]].tolist(), exp))
        compared += 1
    ctx.label(case["mode"], case["reduction"], "k1" if k == 1 else ("k_all" if k == d.shape[0] else "k_mid"), "qdim%d" % len(qshape), "object_used_before" if prefit else "fresh_object")
    if compared < q.shape[0]:
        ctx.label("ties_excluded")
    ctx.nt(compared > 0 and d.shape[0] >= 5)


# ---------------------------------------------------------------- median_distance
@st.composite
def median_cases(draw):
    mode, pts = draw(clouds(min_n=2))
    for i in draw(st.lists(st.integers(0, len(pts) - 1), max_size=2)) if draw(st.integers(0, 2)) == 0 else []:
        pts = pts + [list(pts[i])]  # a repeated position: its nearest other point is at distance 0
    n = len(pts)
    return dict(mode=mode, data=pts, k=draw(st.integers(1, n - 1)), shape=draw(st.sampled_from(blocks.shape_options(n))),
                proj=draw(st.one_of(st.none(), st.tuples(st.sampled_from([1.0, 2.0, 0.5, 10.0, -1.0]), st.sampled_from([1.0, 3.0, 0.25, -2.0])),
                                    st.sampled_from([(0.8, -0.6, 0.6, 0.8), (1.0, 0.7, 0.0, 1.0)]))),
                extra=draw(st.booleans()), orders=draw(build.orders_strategy()), container=draw(st.sampled_from(build.CONTAINERS)))


def check_median(case, ctx):
    d = np.array(case["data"])
    shape = case["shape"]
    lay = build.Lay(case.get("orders"))
    coords = (lay(d[:, 0], shape), lay(d[:, 1], shape)) + ((lay(37.0 * np.arange(d.shape[0]) ** 2, shape),) if case["extra"] else ())
    proj = proj_from(case["proj"])
    kw = {} if proj is None else dict(projection=proj)
    got = np.asarray(vd.median_distance(tuple(build.present(c, case.get("container")) for c in coords), k_nearest=case["k"], **kw))
    ctx.check(got.shape == tuple(shape), "result shape %s, input shape %s", got.shape, tuple(shape))
    p = d if proj is None else np.transpose(proj(d[:, 0], d[:, 1]))
    D = dist_matrix(p, p)
    for i in range(d.shape[0]):
        others = np.sort(np.delete(D[i], i))
        exp = float(np.median(others[:case["k"]]))
        if abs(got.ravel()[i] - exp) > 1e-12 * max(exp, 1e-300):
            raise Violation("point %r: median distance to its %d nearest other points is %r, got %r" % (d[i].tolist(), case["k"], exp, float(got.ravel()[i])))
    ctx.label(case["mode"], "proj" if proj else "noproj", "ndim%d" % len(shape))
    ctx.nt(d.shape[0] >= 5 and (case["k"] >= 2 or proj is not None))


# ---------------------------------------------------------------- distance_mask
@st.composite
def mask_cases(draw):
    mode, pts = draw(clouds(min_n=1))
    form = draw(st.sampled_from(["array", "grid"]))
    proj = draw(st.one_of(st.none(), st.tuples(st.sampled_from([1.0, 2.0, 0.5, 10.0]), st.sampled_from([1.0, 3.0, 0.25])),
                          st.sampled_from([(0.8, -0.6, 0.6, 0.8), (1.0, 0.7, 0.0, 1.0), (0.5, 2.0, -1.5, 0.25)])))
    proj = None if proj is None else list(proj)
    case = dict(mode=mode, data=pts, form=form, proj=proj, dshape=draw(st.sampled_from(blocks.shape_options(len(pts)))), orders=draw(build.orders_strategy()),
                extra=draw(st.sampled_from([0, 0, 1, 2])), qextra=draw(st.sampled_from([0, 0, 1])))
    if form == "array":
        qs = draw(queries(mode, pts))
        case["query"] = qs
        case["qshape"] = draw(st.sampled_from(blocks.shape_options(len(qs))))
    else:
        xs = [p[0] for p in pts]
        ys = [p[1] for p in pts]
        nx, ny = draw(st.integers(1, 7)), draw(st.integers(1, 7))
        pad = draw(st.sampled_from([0.0, 1.0, 5.0]))
        case["east"] = np.linspace(min(xs) - pad, max(xs) + pad, nx).tolist() if mode != "lattice" else [float(v) for v in range(int(min(xs)) - 1, int(min(xs)) - 1 + nx)]
        case["north"] = np.linspace(min(ys) - pad, max(ys) + pad, ny).tolist() if mode != "lattice" else [float(v) for v in range(int(min(ys)) - 1, int(min(ys)) - 1 + ny)]
        # axes of real grids are not always evenly spaced or ascending: warp the spacing (monotonically) and/or reverse the direction
        axes_kind = draw(st.sampled_from(["even", "even", "uneven", "descending", "uneven_descending"]))
        for key in ("east", "north"):
            a = np.array(case[key], dtype="float64")
            if "uneven" in axes_kind and a.size >= 3 and a[-1] != a[0]:
                t = (a - a[0]) / (a[-1] - a[0])
                a = a[0] + (a[-1] - a[0]) * t**2 if mode != "lattice" else np.concatenate([a[:1], a[1:] + np.arange(a.size - 1) ** 2])
            if "descending" in axes_kind:
                a = a[::-1]
            case[key] = a.tolist()
        case["axes_kind"] = axes_kind
        case["nvars"] = draw(st.integers(1, 3))
        case["holes"] = draw(st.sampled_from(["none", "none", "differ", "same"]))  # cells that are blank already, per variable or in all of them
        case["grid_build"] = draw(st.sampled_from(["dataset", "dataarray"]))
    if mode == "lattice" and proj is None:
        case["maxdist"] = float(draw(st.sampled_from([0, 1, 2, 3, 5, 10, 13])))
    else:
        case["maxdist"] = draw(st.one_of(gen.log_uniform(-3, 4), st.sampled_from([0.0, 1.0, 5.0])))
    return case


def check_mask(case, ctx):
    d = np.array(case["data"])
    dshape = case["dshape"]
    lay = build.Lay(case.get("orders"))
    # further coordinates (heights ...) after easting and northing are documented as ignored
    dcoords = (lay(d[:, 0], dshape), lay(d[:, 1], dshape)) + tuple(lay(1e3 + 7.0 * np.arange(d.shape[0]) * (j + 1), dshape) for j in range(case.get("extra", 0)))
    proj = proj_from(case["proj"])
    kw = {} if proj is None else dict(projection=proj)
    maxdist = case["maxdist"]
    if case["form"] == "array":
        q = np.array(case["query"])
        qshape = case["qshape"]
        qcoords = (lay(q[:, 0], qshape), lay(q[:, 1], qshape)) + tuple(lay(-5e2 + 3.0 * np.arange(q.shape[0]), qshape) for _ in range(case.get("qextra", 0)))
        mask = np.asarray(vd.distance_mask(dcoords, maxdist, coordinates=qcoords, **kw))
        ctx.check(mask.shape == tuple(qshape) and mask.dtype == bool, "mask must be boolean with the query's shape, got %s %s", mask.dtype, mask.shape)
    else:
        east, north = np.array(case["east"]), np.array(case["north"])
        ee, nn = np.meshgrid(east, north)
        q = np.column_stack([ee.ravel(), nn.ravel()])
        qshape = ee.shape
        values = [np.arange(ee.size, dtype="float64").reshape(ee.shape) + 1 + 1000 * k for k in range(case["nvars"])]
        if case.get("holes", "none") != "none":
            for k, v in enumerate(values):
                v[(np.arange(v.size).reshape(v.shape) + (2 * k if case["holes"] == "differ" else 0)) % 3 == 0] = np.nan
        if case.get("grid_build") == "dataarray":
            grid = xr.DataArray(values[0], coords={"easting": east, "northing": north}, dims=("northing", "easting"), name="v0").to_dataset()
            for k, v in enumerate(values[1:], start=1):
                grid["v%d" % k] = (("northing", "easting"), v)
        else:
            grid = xr.Dataset({"v%d" % k: (("northing", "easting"), v) for k, v in enumerate(values)}, coords={"easting": east, "northing": north})
        out = vd.distance_mask(dcoords, maxdist, grid=grid, **kw)
        arr_mask = np.asarray(vd.distance_mask(dcoords, maxdist, coordinates=(ee, nn), **kw))
        for k, v in enumerate(values):
            got = out["v%d" % k].values
            ctx.check(got.shape == v.shape, "masked grid changed shape")
            ctx.check(np.array_equal(np.isnan(got), ~arr_mask | np.isnan(v)), "the grid form blanks different cells (variable %d of %d, %d cell(s) blank beforehand) than the array form marks False",
                      k, len(values), int(np.isnan(v).sum()))
            ctx.check(np.array_equal(got[arr_mask], v[arr_mask], equal_nan=True), "the grid form changed values it kept")
        mask = arr_mask
    pd_ = d if proj is None else np.transpose(proj(d[:, 0], d[:, 1]))
    pq = q if proj is None else np.transpose(proj(q[:, 0], q[:, 1]))
    exact = case["mode"] == "lattice" and proj is None and float(maxdist).is_integer() and np.all(q == np.round(q))
    flat = mask.ravel()
    compared = 0
    if exact:
        d2 = ((pq[:, None, :] - pd_[None, :, :]) ** 2).sum(axis=2).min(axis=1)
        exp = d2 <= maxdist**2
        for i in range(q.shape[0]):
            if bool(flat[i]) != bool(exp[i]):
                raise Violation("query %r: nearest data point at squared distance %r, maxdist %r -> expected %r, got %r" % (q[i].tolist(), float(d2[i]), maxdist, bool(exp[i]), bool(flat[i])))
        compared = q.shape[0]
    else:
        dmin = dist_matrix(pq, pd_).min(axis=1)
        for i in range(q.shape[0]):
            # ties, including distances so small that their squares underflow (absolute slack relative to the coordinate magnitudes)
            if abs(dmin[i] - maxdist) <= 1e-9 * max(maxdist, dmin[i]) + 1e-100 * (1.0 + float(np.max(np.abs(pd_)))):
                continue
            compared += 1
            if bool(flat[i]) != bool(dmin[i] <= maxdist):
                raise Violation("query %r: nearest data point at distance %r, maxdist %r -> expected %r, got %r (projection %r)" % (
                    q[i].tolist(), float(dmin[i]), maxdist, bool(dmin[i] <= maxdist), bool(flat[i]), case["proj"]))
    ctx.label(case["mode"], case["form"], "proj" if proj else "noproj", "exact" if exact else "toleranced")
    if flat.any() and not flat.all():
        ctx.label("mixed_mask")
    ctx.nt(compared > 0 and d.shape[0] >= 5 and (proj is not None or len(qshape) == 2))


@st.composite
def mask_reject_cases(draw):
    return dict(kind=draw(st.sampled_from(["neither", "shape_mismatch"])), n=draw(st.integers(2, 6)))


def check_mask_reject(case, ctx):
    d = (np.arange(case["n"], dtype="float64"), np.arange(case["n"], dtype="float64") * 2)
    calls = {
        "neither": lambda: vd.distance_mask(d, 1.0),
        "shape_mismatch": lambda: vd.distance_mask(d, 1.0, coordinates=(np.zeros(3), np.zeros(4))),
    }
    try:
        res = calls[case["kind"]]()
    except Exception:  # noqa: BLE001
        ctx.label(case["kind"])
        ctx.nt(True)
        return
    raise Violation("invalid distance_mask call (%s) accepted: %r" % (case["kind"], res))


# ---------------------------------------------------------------- large inputs (vectorised brute force)
@st.composite
def large_cases(draw):
    return dict(n=draw(st.sampled_from([1500, 4000, 9000])), m=draw(st.sampled_from([300, 1000])), k=draw(st.sampled_from([1, 1, 3, 10])), seed=draw(st.integers(0, 10**6)),
                reduction=draw(st.sampled_from(["mean", "median", "max"])), offset=draw(st.sampled_from([0.0, 0.0, 512000.0, -7.52e6])), maxdist=draw(st.sampled_from([0.05, 0.2, 1.0])))


def check_large(case, ctx):
    rng = np.random.RandomState(case["seed"])  # a pure function of the generated case
    n, m, k, off = case["n"], case["m"], case["k"], case["offset"]
    d = off + rng.uniform(0, 10, (n, 2))
    q = off + rng.uniform(-1, 11, (m, 2))
    vals = np.round(rng.uniform(-100, 100, n) * 16) / 16
    D = dist_matrix(q, d)
    order = np.argsort(D, axis=1, kind="stable")[:, :k + 1]
    ds = np.take_along_axis(D, order, axis=1)
    clear = (ds[:, k] - ds[:, k - 1]) > 1e-9 * ds[:, k] if k < n else np.ones(m, dtype=bool)
    exp = REDS[case["reduction"]](vals[order[:, :k]], axis=1)
    kn = vd.KNeighbors(k=k, reduction=REDS[case["reduction"]]).fit((d[:, 0], d[:, 1]), vals)
    got = np.asarray(kn.predict((q[:, 0], q[:, 1])))
    bad = clear & (np.abs(got - exp) > 1e-12 * np.maximum(np.abs(exp), 1.0))
    if bad.any():
        i = int(np.argmax(bad))
        raise Violation("KNeighbors(k=%d, %s) on %d points: query %d %r predicted %r, brute force gives %r" % (k, case["reduction"], n, i, q[i].tolist(), float(got[i]), float(exp[i])))
    # distance_mask and median_distance on the same clouds
    mask = np.asarray(vd.distance_mask((d[:, 0], d[:, 1]), case["maxdist"], coordinates=(q[:, 0], q[:, 1])))
    near = D.min(axis=1)
    sure = np.abs(near - case["maxdist"]) > 1e-9 * case["maxdist"]
    ctx.check(np.array_equal(mask[sure], (near <= case["maxdist"])[sure]), "distance_mask over %d data and %d query points disagrees with the brute-force nearest distance", n, m)
    sub_ = d[:1500]
    DD = dist_matrix(sub_, sub_)
    np.fill_diagonal(DD, np.inf)
    kk = min(k, 5)
    exp_md = np.median(np.sort(DD, axis=1)[:, :kk], axis=1)
    got_md = np.asarray(vd.median_distance((sub_[:, 0], sub_[:, 1]), k_nearest=kk))
    ctx.check(np.all(np.abs(got_md - exp_md) <= 1e-12 * np.maximum(exp_md, 1e-300)), "median_distance over %d points disagrees with brute force", sub_.shape[0])
    ctx.label("n%d" % n, "k%d" % k, case["reduction"], "utm" if off else "local")
    ctx.nt(True)


SUBCHECKS = [
    Sub("kneighbors", check_knn, strategy=knn_cases(), quick=500, thorough=3000, shards_quick=2,
        doc="KNeighbors prediction = reduction of the values of exactly the k nearest data points (brute-force distance matrix), query shape kept"),
    Sub("median_distance", check_median, strategy=median_cases(), quick=400, thorough=2500,
        doc="median of the distances to the k nearest other points, with and without an anisotropic projection"),
    Sub("distance_mask", check_mask, strategy=mask_cases(), quick=500, thorough=3000, shards_quick=2,
        doc="mask true exactly where the nearest (projected) data point is within maxdist; grid form blanks exactly the False cells"),
    Sub("mask_rejects", check_mask_reject, strategy=mask_reject_cases(), quick=20, thorough=40, shards_thorough=1,
        doc="distance_mask without coordinates or grid, or with mismatching coordinate shapes, is rejected"),
    Sub("large", check_large, strategy=large_cases(), quick=8, thorough=40, heavy=True,
        doc="KNeighbors / distance_mask / median_distance on 1 500 - 9 000 data points (also at UTM-sized offsets) against a vectorised brute-force distance matrix"),
]
