"""C13 - regions, bounds and point-in-region tests are tight and consistent."""
import math

import numpy as np
import verde as vd
from hypothesis import strategies as st

from vlib import build, gen
from vlib.oracles import EPS
from vlib.runner import Sub, Violation

PROPERTY = "C13"
RULE = ("Hypothesis-generated coordinate arrays (any shape/dtype, points exactly on bounds), regions (incl. degenerate), pads, seeds, "
        "projections and invalid regions; non-trivial = at least one point exactly on a bound of the tested region (inside/get_region), "
        "a pad with different north/east parts, a non-identity projection, >= 2 arrays or a NaN (maxabs), or a demanded rejection; "
        "distinct = SHA-1 of the case")
ASSUMPTIONS = [
    "coordinates and regions hold finite floats; NaNs only in maxabs inputs",
    "pad undo is asserted exactly on dyadic values and to 2 ulp of the largest magnitude otherwise",
    "project_region is compared with the exact bounding box for projections whose extrema lie on nodes of its 101x101 sampling grid "
    "(per-axis monotone maps, general linear maps, quadratics centred on a sampling node)",
]


def _coords_from(case):
    shape = case["shape"]
    e = np.array(case["e"], dtype=case.get("dtype", "float64")).reshape(shape)
    n = np.array(case["n"], dtype=case.get("dtype", "float64")).reshape(shape)
    return e, n


@st.composite
def cloud_cases(draw):
    region = draw(gen.regions(allow_degenerate=True))
    w, e, s, n = region
    count = draw(st.integers(1, 40))

    def coord(lo, hi):
        span = hi - lo
        return st.one_of(st.sampled_from([lo, hi]), gen.finite(lo, hi) if hi > lo else st.just(lo),
                         st.sampled_from([math.nextafter(lo, -math.inf), math.nextafter(hi, math.inf),
                                          math.nextafter(lo, math.inf), math.nextafter(hi, -math.inf)]),
                         gen.finite(lo - span - 1, hi + span + 1))

    es = draw(st.lists(coord(w, e), min_size=count, max_size=count))
    ns = draw(st.lists(coord(s, n), min_size=count, max_size=count))
    shapes = [[count]]
    for k in (2, 3, 4):
        if count % k == 0:
            shapes.append([k, count // k])
    shapes.append([count, 1])
    if count == 1:
        shapes.append([])
    return dict(region=region, e=es, n=ns, shape=draw(st.sampled_from(shapes)), order=draw(st.sampled_from(build.ORDERS)), order2=draw(st.sampled_from(build.ORDERS)), container=draw(st.sampled_from(build.CONTAINERS)),
                extra=draw(st.booleans()))


def check_cloud(case, ctx):
    lay_ = build.Lay([case["order"], case.get("order2", case["order"])])
    e, n = lay_(case["e"], case["shape"]), lay_(case["n"], case["shape"])
    coords = (e, n) + ((np.zeros_like(e),) if case["extra"] else ())
    region = case["region"]
    w, ee, s, nn = region
    # get_region: tight bounding box
    pcoords = tuple(build.present(c, case.get("container")) for c in coords)
    got = vd.get_region(pcoords)
    ctx.check(len(got) == 4, "get_region must return 4 values")
    exp = (min(case["e"]), max(case["e"]), min(case["n"]), max(case["n"]))
    ctx.check(tuple(float(v) for v in got) == exp, "get_region %r is not the tight bounding box %r", got, exp)
    # the same values as sorted axis vectors of a grid: pandas Index objects and xarray dimension coordinates, ascending or descending
    if e.ndim == 1:
        import pandas as pd
        import xarray as xr

        for direction in (1, -1):
            se, sn = np.sort(np.asarray(e, dtype="float64"))[::direction], np.sort(np.asarray(n, dtype="float64"))[::direction]
            for name, (ce, cn) in (("pandas.Index", (pd.Index(se), pd.Index(sn))),
                                   ("xarray dimension coordinate", (xr.DataArray(se, dims="x", coords={"x": se}).x, xr.DataArray(sn, dims="y", coords={"y": sn}).y))):
                alt = vd.get_region((ce, cn))
                ctx.check(tuple(float(v) for v in alt) == exp, "get_region of %s %s axes is %r, the bounding box is %r", "ascending" if direction == 1 else "descending", name, alt, exp)
    # a single point given as Python scalars or 0-d arrays: a 0-d answer with the same truth value
    x0, y0 = float(np.ravel(e)[0]), float(np.ravel(n)[0])
    for form, pt in (("Python floats", (x0, y0)), ("0-d arrays", (np.array(x0), np.array(y0)))):
        one = np.asarray(vd.inside(pt, tuple(region)))
        ctx.check(one.shape == () and bool(one) == (w <= x0 <= ee and s <= y0 <= nn), "inside of one point given as %s: shape %s, value %r; the closed box says %r in shape ()", form, one.shape, one.tolist(),
                  w <= x0 <= ee and s <= y0 <= nn)
    # every point is inside its own bounding region
    own = vd.inside(pcoords, got)
    ctx.check(np.asarray(own).shape == e.shape and np.all(own), "some points are outside their own bounding region")
    # half-open bands, quadrants and the whole plane: infinite bounds are valid regions (W <= E, S <= N) and the predicate stays the closed box
    inf = float("inf")
    for band in ((-inf, inf, s, nn), (w, inf, -inf, nn), (-inf, ee, s, inf), (-inf, inf, -inf, inf)):
        got_band = np.asarray(vd.inside(pcoords, band))
        exp_band = (np.asarray(e) >= band[0]) & (np.asarray(e) <= band[1]) & (np.asarray(n) >= band[2]) & (np.asarray(n) <= band[3])
        ctx.check(got_band.shape == e.shape and np.array_equal(got_band, exp_band), "inside with the unbounded region %r is not the closed-box predicate", band)
    # closed box predicate, element-wise, same shape, bool dtype
    res = vd.inside(pcoords, build.plain(tuple(region), build.plain_flag(case)))
    res = np.asarray(res)
    ctx.check(res.shape == e.shape, "inside returned shape %s for input shape %s", res.shape, e.shape)
    ctx.check(res.dtype == bool, "inside returned dtype %s", res.dtype)
    flat = res.ravel(order="C")
    ef, nf = np.asarray(e).ravel(order="C"), np.asarray(n).ravel(order="C")
    on_bound = 0
    for k in range(ef.size):
        x, y = float(ef[k]), float(nf[k])
        expected = (w <= x <= ee) and (s <= y <= nn)
        if x in (w, ee) or y in (s, nn):
            on_bound += expected
        if bool(flat[k]) != expected:
            raise Violation("inside((%r, %r), %r) = %r, closed box says %r" % (x, y, region, bool(flat[k]), expected))
    # a mask is a value: the later calls on coordinates of the same shape (other regions, other answers) must not have changed the one handed out first
    ctx.check(np.asarray(own).shape == e.shape and bool(np.all(own)), "the mask returned by an earlier call of inside (every point in its own bounding region: all True) changed its contents "
              "after inside was called again with other regions")
    ctx.label("ndim%d" % e.ndim, "on_bound" if on_bound else "no_bound_point", "some_outside" if not flat.all() else "all_inside")
    if w == ee or s == nn:
        ctx.label("degenerate_region")
    ctx.nt(on_bound > 0)


@st.composite
def nodes_cases(draw):
    region = draw(gen.regions(allow_degenerate=True))
    kind = draw(st.sampled_from(["scatter", "grid_shape", "grid_spacing"]))
    case = dict(region=region, kind=kind)
    if kind == "scatter":
        case.update(size=draw(st.integers(1, 200)), seed=draw(st.integers(0, 2**31 - 1)), extra_seq=draw(st.sampled_from(build.SEQS)),
                    extra=draw(st.one_of(st.none(), gen.finite(-100, 100), st.just(0.0), st.lists(st.one_of(gen.finite(-100, 100), st.just(0.0)), min_size=1, max_size=3))))
    elif kind == "grid_shape":
        case.update(shape=[draw(st.integers(1, 60)), draw(st.integers(1, 60))], pixel=draw(st.booleans()))
    else:
        case.update(spacing=[draw(gen.spacing_for(region[2], region[3], 80)), draw(gen.spacing_for(region[0], region[1], 80))],
                    pixel=draw(st.booleans()))
    return case


def check_nodes(case, ctx):
    region = case["region"]
    if case["kind"] == "scatter":
        kw = {} if case["extra"] is None else dict(extra_coords=build.seq(case["extra"], case.get("extra_seq", "list")))
        a = vd.scatter_points(region, case["size"], random_state=case["seed"], **kw)
        b = vd.scatter_points(region, case["size"], random_state=case["seed"], **kw)
        n_extra = 0 if case["extra"] is None else (len(case["extra"]) if isinstance(case["extra"], list) else 1)
        ctx.check(len(a) == 2 + n_extra, "scatter_points returned %d arrays", len(a))
        for x, y in zip(a, b):
            ctx.check(np.asarray(x).shape == (case["size"],), "scatter_points arrays must have 'size' elements")
            ctx.check(np.array_equal(x, y), "scatter_points is not reproducible for seed %r", case["seed"])
        ctx.check(np.all(vd.inside(a, region)), "scatter_points produced points outside %r", region)
        for k in range(n_extra):
            value = case["extra"][k] if isinstance(case["extra"], list) else case["extra"]
            ctx.check(np.all(a[2 + k] == value), "extra coordinate is not the constant %r", value)
        if case["size"] >= 4 and region[1] > region[0] and region[3] > region[2]:
            # easting and northing are separate draws, and draws differ between points
            fe = (a[0] - region[0]) / (region[1] - region[0])
            fn = (a[1] - region[2]) / (region[3] - region[2])
            ctx.check(not np.allclose(fe, fn, rtol=0, atol=1e-9), "easting and northing of scatter_points are the same draw")
            ctx.check(np.unique(a[0]).size > 1 and np.unique(a[1]).size > 1, "scatter_points are all identical")
            other = vd.scatter_points(region, case["size"], random_state=case["seed"] + 1)
            ctx.check(not np.array_equal(other[0], a[0]), "different seeds give identical points")
        ctx.label("scatter", "extra%d" % n_extra)
        ctx.nt(case["size"] >= 4)
    else:
        if case["kind"] == "grid_shape":
            coords = vd.grid_coordinates(region, shape=tuple(case["shape"]), pixel_register=case["pixel"])
        else:
            coords = vd.grid_coordinates(region, spacing=tuple(case["spacing"]), adjust="spacing", pixel_register=case["pixel"])
        ins = vd.inside(coords, region)
        if not np.all(ins):
            bad = np.argwhere(~np.asarray(ins))[0]
            raise Violation("grid node (%r, %r) lies outside the requested region %r (%r)" % (
                float(coords[0][tuple(bad)]), float(coords[1][tuple(bad)]), region, case))
        ctx.label(case["kind"], "pixel" if case["pixel"] else "gridline")
        ctx.nt(coords[0].size >= 4)


@st.composite
def pad_cases(draw):
    dyadic = draw(st.booleans())
    if dyadic:
        vals = st.integers(-4096, 4096).map(lambda k: k / 8.0)
        w = draw(vals)
        s = draw(vals)
        region = [w, w + draw(st.integers(0, 4096)) / 8.0, s, s + draw(st.integers(0, 4096)) / 8.0]
        pad = st.integers(0, 2048).map(lambda k: k / 16.0)
    else:
        region = draw(gen.regions(allow_degenerate=True))
        pad = st.one_of(gen.finite(0, 1e4), gen.log_uniform(-6, 5))
    form = draw(st.sampled_from(["scalar", "pair"]))
    # negative pads shrink the region (possibly past its centre line: plain arithmetic, still undone by the opposite pad)
    sign = draw(st.sampled_from([1.0, 1.0, -1.0]))
    if form == "scalar":
        p = draw(pad)
        return dict(region=region, pad=sign * p, dyadic=dyadic)
    return dict(region=region, pad=[sign * draw(pad), draw(st.sampled_from([1.0, sign])) * draw(pad)], dyadic=dyadic)


def check_pad(case, ctx):
    region, pad = case["region"], case["pad"]
    pn, pe = (pad, pad) if not isinstance(pad, list) else pad
    arg = pad if not isinstance(pad, list) else tuple(pad)
    ints = build.plain_flag(case)
    got = vd.pad_region(build.plain(tuple(region), ints), build.plain(arg, ints))
    ctx.check(len(got) == 4, "pad_region must return 4 values")
    exp = (region[0] - pe, region[1] + pe, region[2] - pn, region[3] + pn)
    ctx.check(tuple(float(v) for v in got) == exp, "pad_region(%r, %r) = %r, expected %r (west/east move by the east pad, south/north by the north pad)",
              region, arg, got, exp)
    if pn >= 0 and pe >= 0:
        ctx.check(got[0] <= region[0] and got[1] >= region[1] and got[2] <= region[2] and got[3] >= region[3], "a bound moved inwards")
    else:
        ctx.label("negative_pad", *(["shrunk_past_centre"] if (region[1] - region[0] + 2 * pe < 0 or region[3] - region[2] + 2 * pn < 0) else []))
    back = vd.pad_region(got, -pad if not isinstance(pad, list) else (-pn, -pe))
    scale = max(abs(v) for v in list(region) + [pn, pe]) or 1.0
    for a, b in zip(back, region):
        if case["dyadic"]:
            ctx.check(float(a) == b, "opposite pad does not restore the region: %r -> %r", region, back)
        else:
            ctx.check(abs(float(a) - b) <= 2 * EPS * scale, "opposite pad does not restore the region: %r -> %r", region, back)
    ctx.label("dyadic" if case["dyadic"] else "free", "pair" if isinstance(pad, list) else "scalar")
    ctx.nt(isinstance(pad, list) and pn != pe)


# -------------------------------------------------------------- projections
def make_projection(desc, region):
    kind = desc["kind"]
    if kind == "affine":
        ax, bx, ay, by = desc["ax"], desc["bx"], desc["ay"], desc["by"]
        return lambda e, n: (ax * e + bx, ay * n + by)
    if kind == "cubic":
        c = desc["c"]
        return lambda e, n: (e + e**3 / c, n + n**3 / c)
    if kind == "linear2d":
        a, b, c, d = desc["m"]
        return lambda e, n: (a * e + b * n, c * e + d * n)
    if kind == "quad":
        ce = np.linspace(region[0], region[1], 101)[desc["kx"]]
        cn = np.linspace(region[2], region[3], 101)[desc["ky"]]
        return lambda e, n: ((e - ce) ** 2, -((n - cn) ** 2))
    if kind == "bowl":
        # non-separable: a paraboloid whose minimum sits on an interior sampling node, and the northing untouched
        ce = np.linspace(region[0], region[1], 101)[desc["kx"]]
        cn = np.linspace(region[2], region[3], 101)[desc["ky"]]
        return lambda e, n: ((e - ce) ** 2 + (n - cn) ** 2, n)
    raise ValueError(kind)


@st.composite
def projection_cases(draw):
    region = draw(gen.regions(allow_degenerate=True, max_exp=4))
    kind = draw(st.sampled_from(["affine", "cubic", "linear2d", "quad", "bowl"]))
    nz = st.one_of(gen.finite(0.01, 100), gen.finite(-100, -0.01))
    if kind == "affine":
        desc = dict(kind=kind, ax=draw(nz), bx=draw(gen.finite(-1e3, 1e3)), ay=draw(nz), by=draw(gen.finite(-1e3, 1e3)))
    elif kind == "cubic":
        desc = dict(kind=kind, c=draw(gen.log_uniform(0, 8)))
    elif kind == "linear2d":
        desc = dict(kind=kind, m=[draw(gen.finite(-10, 10)) for _ in range(4)])
    elif kind == "bowl":
        desc = dict(kind=kind, kx=draw(st.integers(1, 99)), ky=draw(st.integers(1, 99)))
    else:
        desc = dict(kind=kind, kx=draw(st.integers(0, 100)), ky=draw(st.integers(0, 100)))
    return dict(region=region, projection=desc)


def check_projection(case, ctx):
    region, desc = case["region"], case["projection"]
    proj = make_projection(desc, region)
    got = vd.project_region(tuple(region), proj)
    ctx.check(len(got) == 4, "project_region must return 4 values")
    w, e, s, n = region
    ce = np.array([w, e, w, e], dtype="float64")
    cn = np.array([s, s, n, n], dtype="float64")
    pe, pn = proj(ce, cn)
    exp = [pe.min(), pe.max(), pn.min(), pn.max()]
    if desc["kind"] == "quad":
        # extremum (0) is reached exactly on a sampling node
        exp = [0.0, max(pe.max(), 0.0), min(pn.min(), -0.0), 0.0]
    if desc["kind"] == "bowl":
        # minimum 0 on an interior sampling node, maximum at a corner; northing unchanged
        exp = [0.0, pe.max(), pn.min(), pn.max()]
    scale = max(abs(v) for v in exp) or 1.0
    for a, b, name in zip(got, exp, "WESN"):
        ctx.check(abs(float(a) - float(b)) <= 8 * EPS * scale,
                  "project_region(%r, %r): %s bound %r != bounding box of the projected region %r", region, desc, name, float(a), float(b))
    ctx.check(got[0] <= got[1] and got[2] <= got[3], "projected region is not ordered")
    ctx.label(desc["kind"])
    ctx.nt(not (desc["kind"] == "affine" and desc["ax"] == 1 and desc["ay"] == 1))


# -------------------------------------------------------------- maxabs
@st.composite
def maxabs_cases(draw):
    narr = draw(st.integers(1, 4))
    val = st.one_of(gen.finite(-1e6, 1e6), st.integers(-1000, 1000).map(float), st.just(float("nan")), st.just(0.0))
    counts = draw(st.sampled_from([False, False, True]))
    if counts:
        # every array holds non-negative integers (counts, pixel values): all-unsigned dtype combinations occur
        val = st.integers(0, 250).map(float)
    arrays = []
    for _ in range(narr):
        n = draw(st.integers(1, 12))
        arrays.append(draw(st.lists(val, min_size=n, max_size=n)))
    shapes = []
    for a in arrays:
        shapes.append([2, len(a) // 2] if len(a) % 2 == 0 and draw(st.booleans()) else [len(a)])
    dtypes = []
    for a in arrays:
        integral = all((not math.isnan(v)) and float(v).is_integer() for v in a)
        nonneg = integral and all(v >= 0 for v in a)
        opts = ["float64"] + (["int64", "int32", "float32"] if integral else []) + (["uint8" if max(a) < 256 else "uint32", "uint64"] if nonneg else [])
        if counts:
            opts = ["uint8", "uint16", "uint32", "uint64", "uint8", "int16"]
        dtypes.append(draw(st.sampled_from(opts)))
    return dict(arrays=arrays, shapes=shapes, nan=draw(st.booleans()), as_list=draw(st.booleans()), dtypes=dtypes)


def check_maxabs(case, ctx):
    arrs = [np.array(a, dtype=dt).reshape(s) for a, s, dt in zip(case["arrays"], case["shapes"], case.get("dtypes") or ["float64"] * len(case["arrays"]))]
    flat = [v for a in case["arrays"] for v in a]
    has_nan = any(math.isnan(v) for v in flat)
    finite_vals = [abs(v) for v in flat if not math.isnan(v)]
    all_nan_array = any(all(math.isnan(v) for v in a) for a in case["arrays"])
    args = [a.tolist() for a in arrs] if case["as_list"] else arrs
    # the containers that verde itself hands on: a column of grid_to_table (pandas Series), a variable of grid() / load_surfer (xarray DataArray)
    form = ["given", "given", "series", "dataarray"][build.small_hash(case, 17) % 4]
    if form != "given" and not case["as_list"]:
        import pandas as pd
        import xarray as xr

        args = [(pd.Series(a.ravel(), index=np.arange(a.size) + 3) if form == "series" else xr.DataArray(a, dims=["d%d_%d" % (k, j) for j in range(a.ndim)])) for k, a in enumerate(arrs)]
    import warnings

    with warnings.catch_warnings():
        warnings.simplefilter("ignore")
        got = vd.maxabs(*args, nan=case["nan"])
    got = float(got)
    if case["nan"]:
        if not finite_vals:
            ctx.check(math.isnan(got), "maxabs of all-NaN input should be NaN, got %r", got)
        else:
            ctx.check(got == max(finite_vals), "maxabs(%r, nan=True) = %r, expected %r", case["arrays"], got, max(finite_vals))
    else:
        if has_nan:
            ctx.check(math.isnan(got), "maxabs(..., nan=False) with NaNs present should be NaN, got %r", got)
        else:
            ctx.check(got == max(finite_vals), "maxabs(%r) = %r, expected %r", case["arrays"], got, max(finite_vals))
    ctx.label("nan_aware" if case["nan"] else "plain", "has_nan" if has_nan else "no_nan", "arrays%d" % len(arrs), "as_" + (form if not case["as_list"] else "list"))
    if all_nan_array:
        ctx.label("all_nan_array")
    ctx.nt(len(arrs) >= 2 or has_nan)


# -------------------------------------------------------------- invalid regions
@st.composite
def invalid_cases(draw):
    region = draw(gen.regions())
    kind = draw(st.sampled_from(["W>E", "S>N", "len3", "len5", "len2", "len6", "len8"]))
    w, e, s, n = region
    if kind == "W>E":
        bad = [e, w, s, n] if e > w else [w + 1, w, s, n]
    elif kind == "S>N":
        bad = [w, e, n, s] if n > s else [w, e, s + 1, s]
    elif kind == "len3":
        bad = [w, e, s]
    elif kind == "len5":
        bad = [w, e, s, n, n + 1]
    elif kind == "len6":
        bad = [w, e, s, n, 0.0, 1.0]
    elif kind == "len8":
        bad = [w, e, s, n, 0.0, 1.0, -5.0, 5.0]
    else:
        bad = [w, e]
    if draw(st.booleans()) and kind in ("W>E", "S>N"):
        # barely inverted
        if kind == "W>E":
            bad = [math.nextafter(w, math.inf), w, s, n]
        else:
            bad = [w, e, math.nextafter(s, math.inf), s]
    func = draw(st.sampled_from(["check_region", "inside", "scatter_points", "grid_coordinates", "block_split", "grid", "scatter", "rolling_window_shape", "rolling_window_spacing",
                                 "block_reduce", "block_mean", "project_region", "checkerboard_scatter"]))
    case = dict(kind=kind, region=bad, func=func, good=region)
    if kind in ("W>E", "S>N") and draw(st.integers(0, 2)) == 0:
        # whole-number bounds handed over as one array of a narrow integer type (pixel or degree bounds read from a header)
        dtype = draw(st.sampled_from(INT_REGION_DTYPES))
        w, e, s, n = draw(int_region(dtype))
        case.update(region=[e, w, s, n] if kind == "W>E" else [w, e, n, s], good=[w, e, s, n], dtype=dtype)
    elif draw(st.booleans()):
        case["form"] = draw(st.sampled_from(["tuple", "array"]))
    return case


INT_REGION_DTYPES = ["uint8", "int8", "uint16", "int16", "uint32", "int32", "int64"]


@st.composite
def int_region(draw, dtype):
    """a valid region W < E, S < N of whole numbers that fit dtype, often spanning more than half of its range"""
    info = np.iinfo(dtype)
    lo, hi = max(int(info.min), -10**6), min(int(info.max), 10**6)
    pairs = []
    for _ in range(2):
        a = draw(st.one_of(st.integers(lo, hi - 1), st.sampled_from([lo, lo + 1, 0 if lo < 0 else lo])))
        b = draw(st.one_of(st.integers(a + 1, hi), st.just(hi), st.just(min(hi, a + 1))))
        pairs += [a, b]
    return pairs


class _Flat(vd.base.BaseGridder):
    def predict(self, coordinates):
        return np.zeros_like(np.asarray(coordinates[0], dtype="float64"))


def check_invalid(case, ctx):
    bad, func = case["region"], case["func"]
    if case.get("dtype"):
        bad = np.array(bad, dtype=case["dtype"])
    elif case.get("form") == "tuple":
        bad = tuple(bad)
    elif case.get("form") == "array":
        bad = np.array(bad, dtype="float64")
    w, e, s, n = case["good"]
    pts = (np.array([w, e, (w + e) / 2]), np.array([s, n, (s + n) / 2]))
    calls = {
        "check_region": lambda: vd.coordinates.check_region(bad),
        "inside": lambda: vd.inside(pts, bad),
        "scatter_points": lambda: vd.scatter_points(bad, 5, random_state=0),
        "grid_coordinates": lambda: vd.grid_coordinates(bad, shape=(3, 4)),
        "block_split": lambda: vd.block_split(pts, shape=(2, 2), region=bad),
        "grid": lambda: _Flat().grid(region=bad, shape=(3, 4)),
        "scatter": lambda: _Flat().scatter(region=bad, size=5),
        "rolling_window_shape": lambda: vd.rolling_window(pts, size=min(e - w, n - s) / 4, shape=(2, 2), region=bad),
        "rolling_window_spacing": lambda: vd.rolling_window(pts, size=min(e - w, n - s) / 4, spacing=min(e - w, n - s) / 4, region=bad),
        "block_reduce": lambda: vd.BlockReduce(np.mean, shape=(2, 2), region=bad).filter(pts, np.ones(3)),
        "block_mean": lambda: vd.BlockMean(shape=(2, 2), region=bad).filter(pts, np.ones(3)),
        "project_region": lambda: vd.project_region(bad, lambda x, y: (x, y)),
        "checkerboard_scatter": lambda: vd.synthetic.CheckerBoard(region=bad).scatter(size=5),
    }
    try:
        result = calls[func]()
    except Exception:  # noqa: BLE001 - "rejected": any error
        ctx.label(case["kind"], func, "region_as_%s" % (case.get("dtype") or case.get("form") or "list"))
        ctx.nt(True)
        return
    raise Violation("%s accepted the invalid region %r (%s) and returned %r" % (func, bad, case["kind"], result))


# -------------------------------------------------------------- the forms a valid region comes in
@st.composite
def region_form_cases(draw):
    dtype = draw(st.sampled_from(INT_REGION_DTYPES))
    return dict(dtype=dtype, region=draw(int_region(dtype)), form=draw(st.sampled_from(["array_dtype", "array_dtype", "list", "array_float", "numpy_scalars"])),
                fracs=[[draw(st.sampled_from([-0.5, 0.0, 0.25, 0.5, 1.0, 1.5])), draw(st.sampled_from([-0.5, 0.0, 0.25, 0.5, 1.0, 1.5]))] for _ in range(6)])


def check_region_forms(case, ctx):
    """A valid region of whole numbers is the same region as a list, a float array, numpy scalars or one array of a (narrow)
    integer type: accepted by everything that takes a region, with the results of the tuple of Python numbers."""
    w, e, s, n = case["region"]
    ref = (float(w), float(e), float(s), float(n))
    dtype = case["dtype"]
    region = {"array_dtype": lambda: np.array(case["region"], dtype=dtype), "list": lambda: list(case["region"]), "array_float": lambda: np.array(ref),
              "numpy_scalars": lambda: tuple(np.dtype(dtype).type(v) for v in case["region"])}[case["form"]]()
    px = np.array([w + f[0] * (e - w) for f in case["fracs"]], dtype="float64")
    py = np.array([s + f[1] * (n - s) for f in case["fracs"]], dtype="float64")
    try:
        vd.coordinates.check_region(region)
    except Exception as exc:  # noqa: BLE001
        raise Violation("check_region rejected the valid region %r given as %s (%s): %s" % (case["region"], case["form"], dtype, exc))
    got = np.asarray(vd.inside((px, py), region))
    exp = (px >= w) & (px <= e) & (py >= s) & (py <= n)
    ctx.check(np.array_equal(got, exp), "inside with the region %r given as %s (%s): %r, the closed box says %r", case["region"], case["form"], dtype, got.tolist(), exp.tolist())
    ge, gn = vd.grid_coordinates(region, shape=(3, 4))
    re_, rn = vd.grid_coordinates(ref, shape=(3, 4))
    ctx.check(np.array_equal(ge, re_) and np.array_equal(gn, rn), "grid_coordinates with the region %r given as %s (%s) differs from the same region given as Python floats: easting %r vs %r",
              case["region"], case["form"], dtype, np.asarray(ge)[0].tolist(), re_[0].tolist())
    se, sn = vd.scatter_points(region, 7, random_state=3)
    fe, fn = vd.scatter_points(ref, 7, random_state=3)
    ctx.check(np.allclose(se, fe, rtol=1e-13, atol=0) and np.allclose(sn, fn, rtol=1e-13, atol=0) and np.all(vd.inside((se, sn), ref)),
              "scatter_points with the region %r given as %s (%s) differs from the same region given as Python floats", case["region"], case["form"], dtype)
    info = np.iinfo(dtype)
    if case["form"] in ("array_dtype", "numpy_scalars") and not (min(w, s) - 2 >= info.min and max(e, n) + 2 <= info.max):
        ctx.label("padded_bounds_outside_the_dtype")  # numpy arithmetic in the caller's own integer type cannot hold the padded bound: not pad_region's doing
        ctx.nt(True)
        return
    pw, pe_, ps, pn = vd.pad_region(region, 2)
    ctx.check((float(pw), float(pe_), float(ps), float(pn)) == (w - 2.0, e + 2.0, s - 2.0, n + 2.0), "pad_region(%r as %s (%s), 2) = %r", case["region"], case["form"], dtype, (pw, pe_, ps, pn))
    ctx.label(case["form"], dtype, "wide" if (e - w) > info.max // 2 or (n - s) > info.max // 2 else "narrow")
    ctx.nt(case["form"] in ("array_dtype", "numpy_scalars"))


# -------------------------------------------------------------- large inputs (vectorised oracle)
@st.composite
def large_cases(draw):
    return dict(region=draw(gen.regions(allow_degenerate=False)), n=draw(st.sampled_from([20000, 65537, 200000])), seed=draw(st.integers(0, 10**6)),
                shape2d=draw(st.booleans()), dtype="float64")


def check_large(case, ctx):
    w, e, s, n = case["region"]
    rng = np.random.RandomState(case["seed"])  # a pure function of the generated case
    m = case["n"]
    x = w + (e - w) * rng.uniform(-0.25, 1.25, m)
    y = s + (n - s) * rng.uniform(-0.25, 1.25, m)
    # a sprinkling of points exactly on the bounds
    on = rng.randint(0, m, size=64)
    x[on[:32]] = rng.choice([w, e], size=32)
    y[on[32:]] = rng.choice([s, n], size=32)
    x, y = x.astype(case["dtype"]), y.astype(case["dtype"])
    if case["shape2d"]:
        k = [d for d in (2, 4, 5, 7) if m % d == 0]
        if k:
            x, y = x.reshape(k[-1], -1), y.reshape(k[-1], -1)
    got = np.asarray(vd.inside((x, y), tuple(case["region"])))
    xf, yf = x.astype("float64"), y.astype("float64")
    exp = (xf >= w) & (xf <= e) & (yf >= s) & (yf <= n)
    ctx.check(got.shape == x.shape and got.dtype == bool, "inside must return booleans in the input's shape")
    if not np.array_equal(got, exp):
        k = int(np.argmax(got.ravel() != exp.ravel()))
        raise Violation("inside: point %d of %d (%r, %r) and region %r: got %r, closed box says %r" % (k, m, float(xf.ravel()[k]), float(yf.ravel()[k]), case["region"],
                                                                                                    bool(got.ravel()[k]), bool(exp.ravel()[k])))
    reg = vd.get_region((x, y))
    ctx.check(tuple(float(v) for v in reg) == (float(xf.min()), float(xf.max()), float(yf.min()), float(yf.max())), "get_region of %d points is %r, the bounding box is %r",
              m, reg, (xf.min(), xf.max(), yf.min(), yf.max()))
    ctx.check(np.all(vd.inside((x, y), reg)), "some of %d points are outside their own bounding region", m)
    ctx.label("n%d" % m, case["dtype"], "2d" if x.ndim == 2 else "1d")
    ctx.nt(True)


SUBCHECKS = [
    Sub("cloud", check_cloud, strategy=cloud_cases(), quick=1500, thorough=5000,
        doc="get_region tight, inside == closed-box predicate element-wise (points on, a hair inside/outside the bounds), every point inside its own region"),
    Sub("nodes_inside", check_nodes, strategy=nodes_cases(), quick=800, thorough=4000,
        doc="scatter_points reproducible/inside/independent draws/extra coords; grid nodes (shape, or spacing adjusted) inside the region"),
    Sub("pad", check_pad, strategy=pad_cases(), quick=800, thorough=3000,
        doc="pad_region moves W/E by the east pad and S/N by the north pad outwards; the opposite pad restores the region"),
    Sub("project_region", check_projection, strategy=projection_cases(), quick=500, thorough=2000,
        doc="bounding box of the projected region for monotone, general linear and node-centred quadratic projections"),
    Sub("large", check_large, strategy=large_cases(), quick=15, thorough=80, heavy=True,
        doc="inside / get_region on 20 000 - 200 000 points (1-D and 2-D) against the vectorised closed-box predicate"),
    Sub("maxabs", check_maxabs, strategy=maxabs_cases(), quick=800, thorough=3000,
        doc="largest absolute value over all arrays, NaN-aware by default"),
    Sub("region_forms", check_region_forms, strategy=region_form_cases(), quick=300, thorough=1500,
        doc="valid whole-number regions given as lists, float arrays, numpy scalars or arrays of (narrow) integer types behave like the tuple of Python numbers"),
    Sub("invalid_regions", check_invalid, strategy=invalid_cases(), quick=400, thorough=1500, shards_thorough=4,
        doc="W > E, S > N and wrong-length regions are rejected by every public function that validates regions"),
]
