"""C11 - blocked cross-validators never split a block and partition the data."""
import itertools
import warnings

import numpy as np
import verde as vd
from hypothesis import strategies as st
from sklearn.model_selection import ShuffleSplit

from vlib import blocks, gen
from vlib.runner import Sub, Violation

PROPERTY = "C11"
RULE = ("(i) exhaustive block-occupancy vectors: populations in {0..4} per block for 2..5 blocks in a row (thorough: up to 6 blocks and 2-row "
        "layouts), every n_splits from 2 to the number of occupied blocks (+1 to test rejection), shuffle x balance x seeds, points placed inside "
        "their blocks by construction; (ii) generated layouts with populations 0..30, shapes/spacings, BlockShuffleSplit test/train sizes as floats "
        "and ints, balancing 1..10, seeds, coordinates also as integer pixel positions in unsigned/narrow dtypes; (iii) one splitter object asked to split two different "
        "layouts in turn; (iv) partition_by_sum over every array of up to 5 (thorough 6) elements from a small alphabet and every part count; non-trivial = uneven populations (max >= 2*min over occupied blocks) or an empty block, or a demanded "
        "rejection; distinct = SHA-1 of the case")
ASSUMPTIONS = [
    "block membership is known by construction and recomputed exactly (vlib/blocks.py); the region is always inferred (as the classes do)",
    "BlockKFold with equally populated occupied blocks: balancing is achievable (cumulative sums k*p always contain distinct cut points), so no fallback warning is accepted",
    "partition_by_sum: a returned partition has every part sum within max(element) + parts of total/parts (the bound the KFold balance statement uses); refusing "
    "(ValueError) is accepted except when there are more elements than parts and all elements are equal",
    "BlockKFold balance bound: |fold points - total/n_splits| <= largest block population + n_splits when balancing succeeded without warning",
    "BlockShuffleSplit candidates are the consecutive splits of one sklearn ShuffleSplit stream over the occupied block ids seeded by random_state "
    "(the documented procedure: 'generates an extra number of splits and selects the one ... closer to the desired amount')",
]


def build_points(lay, pops):
    """Points inside their blocks: the SW and NE corners of the region are the
    first members of the first and last block (so the inferred region is the
    block grid's region)."""
    nb_e, nb_n = lay["nb_e"], lay["nb_n"]
    pts, member = [], []
    nb = nb_e * nb_n
    for b, pop in enumerate(pops):
        i, j = divmod(b, nb_e)
        for k in range(pop):
            if b == 0 and k == 0:
                p = [0, 0.0, 0, 0.0]
            elif b == nb - 1 and k == 0:
                p = [nb_e - 1, 1.0, nb_n - 1, 1.0]
            else:
                p = [j, blocks.INTERIOR[(k * 3 + b) % len(blocks.INTERIOR)], i, blocks.INTERIOR[(k * 7 + 2 * b + 1) % len(blocks.INTERIOR)]]
            pts.append(p)
            member.append(b)
    return pts, member


def make_X(lay, pops, perm=None):
    pts, member = build_points(lay, pops)
    xy = np.array([blocks.point_xy(lay, p) for p in pts], dtype="float64").reshape(-1, 2)
    member = np.array(member)
    if perm is not None:
        xy, member = xy[perm], member[perm]
    if lay.get("pixel"):
        xy = xy.astype(lay["pixel"])
    return xy, member


def check_partition(ctx, n, train, test, member, what):
    train, test = np.asarray(train), np.asarray(test)
    ctx.check(np.issubdtype(train.dtype, np.integer) and np.issubdtype(test.dtype, np.integer), "%s: indices must be integers", what)
    ctx.check(len(set(train.tolist())) == train.size and len(set(test.tolist())) == test.size, "%s: repeated indices", what)
    both = set(train.tolist()) & set(test.tolist())
    ctx.check(not both, "%s: samples %s are in both training and testing sets", what, sorted(both)[:5])
    ctx.check(set(train.tolist()) | set(test.tolist()) == set(range(n)), "%s: train and test do not cover all %d samples", what, n)
    shared = set(member[train].tolist()) & set(member[test].tolist())
    ctx.check(not shared, "%s: blocks %s contribute points to both the training and the testing set", what, sorted(shared))


def vals_first(d):
    return next(iter(d.values()))


def kfold_body(case, ctx):
    lay = dict(W=case.get("W", 0.0), S=case.get("S", 0.0), dx=case.get("dx", 1.0), dy=case.get("dy", 1.0), nb_n=case["nb_n"], nb_e=case["nb_e"],
               pres=case.get("pres", "inferred"), te=case.get("te", 0.0), tn=case.get("tn", 0.0), pixel=case.get("pixel"))
    pops = case["pops"]
    X, member = make_X(lay, pops, case.get("perm"))
    kw = blocks.verde_kwargs(lay)
    mem = blocks.exact_membership(X[:, 0], X[:, 1], kw, (X[:, 0], X[:, 1]))
    if mem is None:
        ctx.skip("ambiguous_membership")
    ctx.check(list(mem[1]) == member.tolist(), "HARNESS: construction and exact membership disagree")
    occupied = sorted(set(member.tolist()))
    n_splits = case["n_splits"]
    cv = vd.BlockKFold(n_splits=n_splits, shuffle=case["shuffle"], balance=case["balance"], random_state=case["seed"], **kw)
    if n_splits > len(occupied):
        try:
            res = list(cv.split(X))
        except Exception:  # noqa: BLE001
            ctx.label("too_many_splits_rejected")
            ctx.nt(True)
            return
        raise Violation("n_splits=%d > %d occupied blocks was accepted: %r" % (n_splits, len(occupied), res))
    with warnings.catch_warnings(record=True) as rec:
        warnings.simplefilter("always")
        splits = [(np.array(a), np.array(b)) for a, b in cv.split(X)]
    warned = any(issubclass(w.category, UserWarning) and "balance" in str(w.message) for w in rec)
    with warnings.catch_warnings():
        warnings.simplefilter("ignore")
        again = [(np.array(a), np.array(b)) for a, b in vd.BlockKFold(n_splits=n_splits, shuffle=case["shuffle"], balance=case["balance"],
                                                                    random_state=case["seed"], **kw).split(X)]
    with warnings.catch_warnings():
        warnings.simplefilter("ignore")
        # second call on the same object, this time with the y and groups arguments of the scikit-learn interface (documented as always ignored)
        same_object = [(np.array(a), np.array(b)) for a, b in cv.split(X, np.arange(X.shape[0], dtype="float64"), np.arange(X.shape[0]) % 3)]
    ctx.check(len(same_object) == len(splits) and all(np.array_equal(a[1], b[1]) for a, b in zip(same_object, splits)),
              "splitting twice with the same BlockKFold object (random_state=%r; the second time with y and groups given, which are documented as ignored) gives different folds", case["seed"])
    ctx.check(len(splits) == n_splits, "BlockKFold yielded %d folds, n_splits=%d", len(splits), n_splits)
    ctx.check(cv.get_n_splits() == n_splits, "get_n_splits() != n_splits")
    n = X.shape[0]
    seen = np.zeros(n, dtype=int)
    pop_of = {b: int(np.sum(member == b)) for b in occupied}
    fold_blocks, fold_points = [], []
    for k, (train, test) in enumerate(splits):
        check_partition(ctx, n, train, test, member, "fold %d" % k)
        ctx.check(test.size > 0, "test fold %d is empty (pops %r, n_splits %d, shuffle %r, balance %r)", k, pops, n_splits, case["shuffle"], case["balance"])
        seen[test] += 1
        fold_blocks.append(len(set(member[test].tolist())))
        fold_points.append(test.size)
        ctx.check(np.array_equal(train, again[k][0]) and np.array_equal(test, again[k][1]), "BlockKFold not reproducible for random_state=%r", case["seed"])
    ctx.check(np.all(seen == 1), "test folds are not pairwise disjoint / do not cover every sample exactly once: counts %r", seen.tolist())
    if case["balance"] and len(set(pop_of.values())) == 1:
        # equally populated blocks: partitions with equal sums exist whatever the order of the blocks, balancing is achievable
        ctx.check(not warned, "BlockKFold(balance=True) fell back to equal block counts although all %d occupied blocks hold %d points (n_splits=%d)",
                  len(occupied), vals_first(pop_of), n_splits)
    if case["balance"] and not warned:
        bound = max(pop_of.values()) + n_splits
        for k, cnt in enumerate(fold_points):
            ctx.check(abs(cnt - n / n_splits) <= bound, "balanced fold %d has %d points, total/n_splits = %.2f, bound %d (pops %r)", k, cnt, n / n_splits, bound, pops)
        ctx.label("balanced")
    else:
        ctx.check(max(fold_blocks) - min(fold_blocks) <= 1, "folds should hold equal numbers of blocks (+-1), got %r (warned=%r, balance=%r)",
                  fold_blocks, warned, case["balance"])
        ctx.label("fallback_warned" if warned else "equal_blocks")
    vals = list(pop_of.values())
    ctx.label("shuffle" if case["shuffle"] else "ordered", "splits%d" % n_splits)
    ctx.nt(max(vals) >= 2 * min(vals) or len(occupied) < len(pops))


def kfold_lattice(tier):
    if tier == "quick":
        layouts, maxpop, seeds = [(1, 2), (1, 3), (1, 4), (2, 2)], 4, [0]
        extra = [((1, 5), 3), ((2, 3), 2)]
    else:
        layouts, maxpop, seeds = [(1, 2), (1, 3), (1, 4), (1, 5), (2, 2), (2, 3)], 4, [0, 1, 7]
        extra = [((1, 6), 3), ((2, 4), 2), ((3, 3), 2)]
    for (nb_n, nb_e), mp in [(lay, maxpop) for lay in layouts] + extra:
        nb = nb_n * nb_e
        for pops in itertools.product(range(mp + 1), repeat=nb):
            if pops[0] < 1 or pops[-1] < 1:
                continue
            occ = sum(1 for p in pops if p > 0)
            if occ < 2:
                continue
            for n_splits in range(2, occ + 2):
                for shuffle in (False, True):
                    for balance in (True, False):
                        for seed in (seeds if shuffle else seeds[:1]):
                            yield dict(nb_n=nb_n, nb_e=nb_e, pops=list(pops), n_splits=n_splits, shuffle=shuffle, balance=balance, seed=seed)


@st.composite
def random_layout_case(draw, max_pop=30):
    nb_n, nb_e = draw(st.integers(1, 5)), draw(st.integers(1, 5))
    if nb_n * nb_e < 2:
        nb_e = 2
    nb = nb_n * nb_e
    kind = draw(st.sampled_from(["uniform", "uneven", "sparse", "clustered", "fine_grid"]))
    if kind == "fine_grid":
        # a few hundred points scattered over a fine grid of up to 40 x 40 blocks (most blocks empty, block ids far apart)
        nb_n, nb_e = draw(st.integers(15, 40)), draw(st.integers(15, 40))
        nb = nb_n * nb_e
        npts = draw(st.integers(60, 250))
        where = draw(st.lists(st.integers(0, nb - 1), min_size=npts, max_size=npts))
        pops = [0] * nb
        for b in where:
            pops[b] += 1
    elif kind == "uniform":
        p = draw(st.integers(1, 6))
        pops = [p] * nb
    elif kind == "uneven":
        pops = draw(st.lists(st.integers(0, max_pop), min_size=nb, max_size=nb))
    elif kind == "sparse":
        pops = draw(st.lists(st.sampled_from([0, 0, 0, 1, 2, 9]), min_size=nb, max_size=nb))
    else:
        pops = draw(st.lists(st.sampled_from([0, 1, 1, 2, 25]), min_size=nb, max_size=nb))
    pops[0] = max(pops[0], 1)
    pops[-1] = max(pops[-1], 1)
    n = sum(pops)
    case = dict(nb_n=nb_n, nb_e=nb_e, pops=pops, W=draw(st.sampled_from([0.0, -50.0, 1000.0, 12345.678])), S=draw(st.sampled_from([0.0, -50.0, 1000.0])),
                dx=draw(st.sampled_from([1.0, 0.5, 10.0, 3.3])), dy=draw(st.sampled_from([1.0, 0.5, 10.0, 7.7])),
                pres=draw(st.sampled_from(["inferred", "inferred_spacing"])), te=draw(st.sampled_from([0.0, 0.3, -0.3])), tn=draw(st.sampled_from([0.0, 0.3, -0.3])),
                perm=draw(st.permutations(range(n))), seed=draw(st.one_of(st.integers(0, 2**31 - 1), st.sampled_from([0, 1, 42]))))
    pixel = draw(st.sampled_from(blocks.PIXEL_DTYPES))
    if pixel:
        # integer-valued coordinates in a narrow / unsigned / single-precision dtype on an integer block grid
        case.update(pixel=pixel, W=float(draw(st.integers(0, 500))), S=float(draw(st.integers(0, 500))), dx=float(draw(st.sampled_from([2, 3, 4, 5, 8, 10, 20]))),
                    dy=float(draw(st.sampled_from([2, 3, 4, 5, 8, 10, 20]))))
    return case


@st.composite
def kfold_random(draw):
    case = draw(random_layout_case())
    occ = sum(1 for p in case["pops"] if p > 0)
    case.update(n_splits=draw(st.integers(2, max(2, occ + 1))), shuffle=draw(st.booleans()), balance=draw(st.booleans()))
    return case


@st.composite
def shuffle_random(draw):
    case = draw(random_layout_case())
    occ = sum(1 for p in case["pops"] if p > 0)
    case["n_splits"] = draw(st.integers(1, 5))
    case["balancing"] = draw(st.integers(1, 10))
    kind = draw(st.sampled_from(["default", "float", "int", "train_float", "train_int", "both"]))
    ts, tr = 0.1, None
    if kind == "float":
        ts = draw(st.sampled_from([0.1, 0.2, 0.25, 0.3, 0.5, 0.75, 0.9]))
    elif kind == "int":
        ts = draw(st.integers(1, max(1, occ)))
    elif kind == "train_float":
        ts, tr = None, draw(st.sampled_from([0.25, 0.5, 0.7, 0.9]))
    elif kind == "train_int":
        ts, tr = None, draw(st.integers(1, max(1, occ)))
    elif kind == "both":
        ts, tr = draw(st.sampled_from([0.2, 0.3, 0.5])), draw(st.sampled_from([0.2, 0.3, 0.5]))
    case["test_size"], case["train_size"] = ts, tr
    return case


def shuffle_body(case, ctx):
    lay = dict(W=case["W"], S=case["S"], dx=case["dx"], dy=case["dy"], nb_n=case["nb_n"], nb_e=case["nb_e"], pres=case["pres"], te=case["te"], tn=case["tn"], pixel=case.get("pixel"))
    X, member = make_X(lay, case["pops"], case.get("perm"))
    kw = blocks.verde_kwargs(lay)
    mem = blocks.exact_membership(X[:, 0], X[:, 1], kw, (X[:, 0], X[:, 1]))
    if mem is None:
        ctx.skip("ambiguous_membership")
    ctx.check(list(mem[1]) == member.tolist(), "HARNESS: construction and exact membership disagree")
    occupied = np.array(sorted(set(member.tolist())))
    args = dict(n_splits=case["n_splits"], test_size=case["test_size"], train_size=case["train_size"], random_state=case["seed"], balancing=case["balancing"])
    # what scikit-learn prescribes for this many blocks
    try:
        ref = list(ShuffleSplit(n_splits=case["n_splits"] * case["balancing"], test_size=case["test_size"], train_size=case["train_size"],
                                random_state=case["seed"]).split(occupied))
    except ValueError:
        ref = None
    if ref is None:
        try:
            res = list(vd.BlockShuffleSplit(**args, **kw).split(X))
        except Exception:  # noqa: BLE001
            ctx.label("sizes_invalid_for_block_count_rejected")
            ctx.nt(True)
            return
        raise Violation("test/train sizes %r/%r are impossible for %d blocks but were accepted: %r" % (case["test_size"], case["train_size"], occupied.size, res))
    cv_obj = vd.BlockShuffleSplit(**args, **kw)
    splits = [(np.array(a), np.array(b)) for a, b in cv_obj.split(X)]
    same_object = [(np.array(a), np.array(b)) for a, b in cv_obj.split(X, np.arange(X.shape[0], dtype="float64"), np.arange(X.shape[0]) % 3)]  # y and groups are documented as ignored
    ctx.check(len(same_object) == len(splits) and all(np.array_equal(a[1], b[1]) for a, b in zip(same_object, splits)),
              "splitting twice with the same BlockShuffleSplit object (random_state=%r) gives different splits", case["seed"])
    again = [(np.array(a), np.array(b)) for a, b in vd.BlockShuffleSplit(**args, **kw).split(X)]
    ctx.check(len(splits) == case["n_splits"], "BlockShuffleSplit yielded %d splits, n_splits=%d", len(splits), case["n_splits"])
    n = X.shape[0]
    n_test_blocks = len(ref[0][1])
    for k, (train, test) in enumerate(splits):
        check_partition(ctx, n, train, test, member, "split %d" % k)
        ctx.check(np.array_equal(train, again[k][0]) and np.array_equal(test, again[k][1]), "BlockShuffleSplit not reproducible for random_state=%r", case["seed"])
        got_blocks = len(set(member[test].tolist()))
        ctx.check(got_blocks == n_test_blocks, "split %d tests %d blocks, test_size=%r/train_size=%r prescribe %d of %d blocks", k, got_blocks,
                  case["test_size"], case["train_size"], n_test_blocks, occupied.size)
        # best point-balanced of its candidates
        cands = ref[k * case["balancing"]:(k + 1) * case["balancing"]]
        scores = []
        for tr_b, te_b in cands:
            te_pts = np.isin(member, occupied[te_b]).sum()
            tr_pts = np.isin(member, occupied[tr_b]).sum()
            scores.append(abs(tr_pts / te_pts - len(tr_b) / len(te_b)))
        best = min(scores)
        test_blocks = set(member[test].tolist())
        mine = [s for (tr_b, te_b), s in zip(cands, scores) if set(occupied[te_b].tolist()) == test_blocks]
        ctx.check(bool(mine), "split %d: the test blocks %s are none of the %d candidate shuffles for random_state=%r", k, sorted(test_blocks), len(cands), case["seed"])
        ctx.check(min(mine) <= best + 1e-12, "split %d: chosen candidate has point/block imbalance %.6g, the best candidate has %.6g", k, min(mine), best)
    vals = [p for p in case["pops"] if p > 0]
    ctx.label("balancing%d" % min(case["balancing"], 3), "test_size_%s" % type(case["test_size"]).__name__, "train_size_%s" % type(case["train_size"]).__name__, case["pres"])
    ctx.nt(max(vals) >= 2 * min(vals) or len(vals) < len(case["pops"]))


# ---------------------------------------------------------------- partition_by_sum (the balancing step of BlockKFold)
def partition_lattice(tier):
    alphabet, nmax = ([1, 2, 3, 7, 25], 5) if tier == "quick" else ([1, 2, 3, 4, 7, 25, 1000], 6)
    for n in range(1, nmax + 1):
        for arr in itertools.product(alphabet, repeat=n):
            for parts in range(2, n + 2):
                yield dict(array=list(arr), parts=parts)


def partition_body(case, ctx):
    arr = np.array(case["array"], dtype="int64")
    parts = case["parts"]
    keep = arr.copy()
    try:
        idx = vd.utils.partition_by_sum(arr, parts)
    except ValueError:
        ctx.check(np.array_equal(arr, keep), "partition_by_sum modified its input")
        ctx.check(parts > arr.size or len(set(case["array"])) > 1,
                  "partition_by_sum(%r, %d) found no partition although all elements are equal (cut points at multiples of the element always exist)", case["array"], parts)
        ctx.label("too_many_parts" if parts > arr.size else "no_partition_found")
        ctx.nt(True)
        return
    ctx.check(np.array_equal(arr, keep), "partition_by_sum modified its input")
    ctx.check(parts <= arr.size, "partition_by_sum(%r, %d): more parts than elements was accepted: %r", case["array"], parts, idx)
    idx = np.asarray(idx)
    ctx.check(idx.shape == (parts - 1,) and np.issubdtype(idx.dtype, np.integer), "partition_by_sum must return parts-1 integer indices, got %r", idx)
    ctx.check(np.all(idx > 0) and np.all(idx < arr.size) and np.all(np.diff(idx) > 0),
              "partition_by_sum(%r, %d) = %r: the indices must be strictly increasing inside 1..n-1 (every part non-empty)", case["array"], parts, idx.tolist())
    sums = [int(s.sum()) for s in np.split(arr, idx)]
    ideal = arr.sum() / parts
    ctx.check(max(abs(s - ideal) for s in sums) <= arr.max() + parts,
              "partition_by_sum(%r, %d) = %r: part sums %r are farther than one element (+%d) from total/parts = %.2f", case["array"], parts, idx.tolist(), sums, parts, ideal)
    ctx.label("partitioned")
    ctx.nt(len(set(case["array"])) > 1)


# ---------------------------------------------------------------- one splitter object, several data sets
@st.composite
def reuse_cases(draw):
    first, second = draw(random_layout_case()), draw(random_layout_case())
    occ = sum(1 for p in second["pops"] if p > 0)
    kind = draw(st.sampled_from(["kfold", "kfold", "shuffle"]))
    case = dict(first=first, second=second, kind=kind, seed=draw(st.sampled_from([0, 1, 42, 12345])))
    if kind == "kfold":
        case.update(n_splits=draw(st.integers(2, max(2, occ))), shuffle=draw(st.booleans()), balance=draw(st.sampled_from([True, True, False])))
    else:
        case.update(n_splits=draw(st.integers(1, 4)), balancing=draw(st.integers(1, 10)), test_size=draw(st.sampled_from([0.1, 0.25, 0.5])))
    return case


def _lay_of(c):
    return dict(W=c["W"], S=c["S"], dx=c["dx"], dy=c["dy"], nb_n=c["nb_n"], nb_e=c["nb_e"], pres=c["pres"], te=c["te"], tn=c["tn"], pixel=c.get("pixel"))


def reuse_body(case, ctx):
    """A splitter holds parameters only: what it yields for a data set may not depend on the data sets it was asked to split before."""
    lay_a, lay_b = _lay_of(case["first"]), _lay_of(case["second"])
    xa, _ = make_X(lay_a, case["first"]["pops"], case["first"].get("perm"))
    xb, _ = make_X(lay_b, case["second"]["pops"], case["second"].get("perm"))
    kw = blocks.verde_kwargs(lay_b)

    def make():
        if case["kind"] == "kfold":
            return vd.BlockKFold(n_splits=case["n_splits"], shuffle=case["shuffle"], balance=case["balance"], random_state=case["seed"], **kw)
        return vd.BlockShuffleSplit(n_splits=case["n_splits"], test_size=case["test_size"], balancing=case["balancing"], random_state=case["seed"], **kw)

    def run(cv, x):
        with warnings.catch_warnings(record=True) as rec:
            warnings.simplefilter("always")
            try:
                out = [(np.array(a), np.array(b)) for a, b in cv.split(x)]
            except Exception as e:  # noqa: BLE001 - compared, not swallowed: both objects must behave alike
                out = type(e).__name__
        return out, sorted({str(w.message)[:60] for w in rec if issubclass(w.category, UserWarning)})

    fresh, fresh_warn = run(make(), xb)
    cv = make()
    first, first_warn = run(cv, xa)
    reused, reused_warn = run(cv, xb)
    what = "%s(%s) used on another data set first" % ("BlockKFold" if case["kind"] == "kfold" else "BlockShuffleSplit",
                                                      ", ".join("%s=%r" % (k, case[k]) for k in ("n_splits", "shuffle", "balance", "balancing", "test_size", "seed") if k in case))
    if isinstance(fresh, str) or isinstance(reused, str):
        ctx.check(fresh == reused, "%s: a fresh object gives %r, the reused one %r", what, fresh if isinstance(fresh, str) else "splits", reused if isinstance(reused, str) else "splits")
    else:
        ctx.check(len(fresh) == len(reused), "%s: %d splits instead of %d", what, len(reused), len(fresh))
        for k, (f, r) in enumerate(zip(fresh, reused)):
            ctx.check(np.array_equal(f[0], r[0]) and np.array_equal(f[1], r[1]),
                      "%s: split %d differs from the split of a fresh object with the same parameters (test sets of %d and %d points; first call %s)",
                      what, k, f[1].size, r[1].size, "raised " + first if isinstance(first, str) else "warned %r" % first_warn)
        ctx.check(fresh_warn == reused_warn, "%s: warnings differ from those of a fresh object: %r vs %r", what, reused_warn, fresh_warn)
        # nested / interleaved use: split() is a generator, and the same object is asked to split the other data set while the first
        # generator is still being consumed (nested cross-validation, zip(cv.split(a), cv.split(b)))
        cv2 = make()
        with warnings.catch_warnings():
            warnings.simplefilter("ignore")
            outer = cv2.split(xb)
            got = [tuple(np.array(a, copy=True) for a in next(outer))]
            run(cv2, xa)
            for tr, te in outer:
                got.append((np.array(tr, copy=True), np.array(te, copy=True)))
                # the caller owns what it was handed: overwriting it (here with the first sample's index) may not disturb the splits still to come
                tr[...] = 0
                te[...] = 0
        ctx.check(len(got) == len(fresh), "%s: %d splits instead of %d when another split() of the same object runs in between", what, len(got), len(fresh))
        for k, (f, r) in enumerate(zip(fresh, got)):
            ctx.check(np.array_equal(f[0], np.array(r[0])) and np.array_equal(f[1], np.array(r[1])),
                      "%s: split %d changes when the same object splits another data set while this generator is still being consumed", what, k)
    ctx.label(case["kind"], "first_raised" if isinstance(first, str) else "first_ok", *(["first_warned"] if first_warn else []), *(["second_warned"] if fresh_warn else []))
    ctx.nt(not isinstance(fresh, str) and (isinstance(first, str) or bool(first_warn) or case["first"]["pops"] != case["second"]["pops"]))


# ---------------------------------------------------------------- large data sets
def large_body(case, ctx):
    """tens of thousands of points in up to 1 600 blocks: the split invariants by vectorised set logic"""
    e, n, labels, region, spacing = blocks.big_cloud(case)
    keep = (e > region[0]) & (e < region[1]) & (n > region[2]) & (n < region[3])
    e, n, labels = e[keep], n[keep], labels[keep]
    # corner points pin the inferred region to the block grid's region
    e = np.concatenate([[region[0], region[1]], e])
    n = np.concatenate([[region[2], region[3]], n])
    labels = np.concatenate([[0, case["nb_n"] * case["nb_e"] - 1], labels])
    X = np.column_stack([e, n])
    occupied = np.unique(labels)
    if occupied.size < 2:
        ctx.skip("fewer_than_two_blocks")
    kw = dict(spacing=spacing) if case["by"] == "spacing" else dict(shape=(case["nb_n"], case["nb_e"]))
    n_splits = int(min(5, occupied.size))
    pops = np.bincount(labels)
    for name, cv in (("BlockKFold", vd.BlockKFold(n_splits=n_splits, shuffle=True, random_state=case["seed"] % 997, **kw)),
                     ("BlockKFold(balance=False)", vd.BlockKFold(n_splits=n_splits, balance=False, **kw)),
                     ("BlockShuffleSplit", vd.BlockShuffleSplit(n_splits=3, test_size=0.25, random_state=case["seed"] % 997, **kw))):
        with warnings.catch_warnings(record=True) as rec:
            warnings.simplefilter("always")
            splits = [(np.asarray(a), np.asarray(b)) for a, b in cv.split(X)]
        warned = any("balance" in str(w.message) for w in rec)
        ctx.check(len(splits) == (3 if name == "BlockShuffleSplit" else n_splits), "%s yielded %d splits", name, len(splits))
        seen = np.zeros(X.shape[0], dtype=int)
        for k, (train, test) in enumerate(splits):
            ctx.check(test.size > 0 and train.size > 0, "%s split %d has an empty side", name, k)
            both = np.zeros(X.shape[0], dtype=int)
            both[train] += 1
            both[test] += 1
            ctx.check(np.all(both == 1), "%s split %d is not a partition of the %d samples", name, k, X.shape[0])
            shared = np.intersect1d(labels[train], labels[test])
            ctx.check(shared.size == 0, "%s split %d: %d blocks contribute points to both sides (e.g. block %s)", name, k, shared.size, shared[:3].tolist())
            seen[test] += 1
            if name == "BlockKFold" and not warned:
                bound = pops.max() + n_splits
                ctx.check(abs(test.size - X.shape[0] / n_splits) <= bound, "balanced fold %d has %d of %d points (bound %d)", k, test.size, X.shape[0], bound)
            if name == "BlockShuffleSplit":
                ntest = np.unique(labels[test]).size
                ctx.check(ntest == int(np.ceil(0.25 * occupied.size)), "BlockShuffleSplit tests %d of %d blocks for test_size=0.25", ntest, occupied.size)
        if name != "BlockShuffleSplit":
            ctx.check(np.all(seen == 1), "%s: the test folds do not cover every sample exactly once", name)
    ctx.label("n%d" % X.shape[0], case["by"], "blocks%d" % min(occupied.size, 1000))
    ctx.nt(occupied.size >= 4)


SUBCHECKS = [
    Sub("kfold_lattice", kfold_body, enumerate=kfold_lattice, shards_quick=16,
        doc="exhaustive small block-occupancy vectors x n_splits x shuffle x balance (x seeds): partition, whole blocks, non-empty disjoint folds, balance/fallback, rejection"),
    Sub("kfold_random", kfold_body, strategy=kfold_random(), quick=300, thorough=2500, shards_quick=2,
        doc="generated layouts (up to 5x5 blocks, populations 0..30, shape or spacing, shuffled sample order)"),
    Sub("shuffle_random", shuffle_body, strategy=shuffle_random(), quick=300, thorough=2500, shards_quick=2,
        doc="BlockShuffleSplit: partition, whole blocks, prescribed number of test blocks, best-balanced candidate, reproducibility, impossible sizes rejected"),
    Sub("partition_lattice", partition_body, enumerate=partition_lattice, shards_quick=4,
        doc="partition_by_sum over every small array and part count: parts-1 strictly increasing interior indices, part sums within one element of total/parts, or a refusal"),
    Sub("reuse", reuse_body, strategy=reuse_cases(), quick=300, thorough=2500, shards_quick=2,
        doc="one splitter object asked to split two different data sets: the second answer (splits, warnings or error) equals that of a fresh object with the same parameters"),
    Sub("large", large_body, strategy=blocks.big_cases, quick=6, thorough=40, heavy=True,
        doc="20 000 - 120 000 points in up to 1 600 blocks: partition, whole blocks, fold count, coverage, balance bound, prescribed number of test blocks"),
]
