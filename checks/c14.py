"""C14 - rolling and expanding windows select exactly the points inside each window."""
from fractions import Fraction

import numpy as np
import verde as vd
from hypothesis import strategies as st

from vlib import blocks, build, gen
from vlib.oracles import exact as exact_value, line_models, match_line
from vlib.runner import Sub, Violation

PROPERTY = "C14"
RULE = ("clouds on a dyadic lattice (every edge comparison exact; points on window edges occur by construction) and free-float clouds, "
        "1-D/2-D arrays, optional extra coordinate, window sizes up to the smaller side of the region, centres by shape or spacing (both adjust "
        "modes), region given or inferred, expanding windows with unordered/repeated size lists; non-trivial = at least 2 windows with different "
        "populations (rolling) or 2 different sizes with different populations (expanding); distinct = SHA-1 of the case")
ASSUMPTIONS = [
    "lattice mode: membership asserted exactly; free mode: points within 1e-9*size of a window edge are exempt",
    "coverage is asserted only when the centre step does not exceed the window size in both directions and the centre grid spans the shrunk region",
    "window centres are compared with the exact C07 model of grid_coordinates on the region shrunk by size/2",
]


def fr(x):
    return Fraction(float(x))


def plain(v, on):
    return int(v) if on and float(v).is_integer() else v


@st.composite
def rolling_cases(draw):
    lattice = draw(st.booleans())
    if lattice:
        q = draw(st.sampled_from([0.5, 0.25, 1.0]))
        W = draw(st.integers(-40, 40)) * q
        S = draw(st.integers(-40, 40)) * q
        half = draw(st.integers(1, 6)) * q
        size = 2 * half
        nce, ncn = draw(st.integers(1, 5)), draw(st.integers(1, 5))
        sx = draw(st.integers(1, 16)) * q
        sy = draw(st.integers(1, 16)) * q
        region = [W, W + size + (nce - 1) * sx, S, S + size + (ncn - 1) * sy]
        pres = draw(st.sampled_from(["shape", "spacing"])) if min(nce, ncn) > 1 else "shape"
        npts = draw(st.integers(1, 40))
        lo_e, hi_e = int(round((region[0] - q) / q)), int(round((region[1] + q) / q))
        lo_n, hi_n = int(round((region[2] - q) / q)), int(round((region[3] + q) / q))
        es = [k * q for k in draw(st.lists(st.integers(lo_e, hi_e), min_size=npts, max_size=npts))]
        ns = [k * q for k in draw(st.lists(st.integers(lo_n, hi_n), min_size=npts, max_size=npts))]
        case = dict(mode="lattice", region=region, size=size, e=es, n=ns)
        if pres == "shape":
            case["shape"] = [ncn, nce]
        else:
            case["spacing"] = [sy, sx]
            case["adjust"] = draw(st.sampled_from(["spacing", "region"]))
        case["given_region"] = True
    else:
        region = draw(gen.regions(max_exp=4))
        side = min(region[1] - region[0], region[3] - region[2])
        size = side * draw(st.one_of(gen.finite(0.02, 1.0), st.sampled_from([1.0, 0.5, 0.25])))
        if not size > 0:
            size = side
        npts = draw(st.integers(1, 40))
        pe = (region[1] - region[0]) * 0.1
        pn = (region[3] - region[2]) * 0.1
        es = draw(st.lists(gen.finite(region[0] - pe, region[1] + pe), min_size=npts, max_size=npts))
        ns = draw(st.lists(gen.finite(region[2] - pn, region[3] + pn), min_size=npts, max_size=npts))
        case = dict(mode="free", region=region, size=size, e=es, n=ns)
        if draw(st.booleans()):
            case["shape"] = [draw(st.integers(1, 6)), draw(st.integers(1, 6))]
        else:
            we, wn = (region[0] + size / 2, region[1] - size / 2), (region[2] + size / 2, region[3] - size / 2)
            if not (we[1] > we[0] and wn[1] > wn[0]):
                case["shape"] = [draw(st.integers(1, 4)), draw(st.integers(1, 4))]
            else:
                case["spacing"] = [draw(gen.spacing_for(wn[0], wn[1], 8)), draw(gen.spacing_for(we[0], we[1], 8))]
                case["adjust"] = draw(st.sampled_from(["spacing", "region"]))
        case["given_region"] = draw(st.booleans())
    case["shape_in"] = draw(st.sampled_from(blocks.shape_options(len(case["e"]))))
    case["extra"] = draw(st.booleans())
    case["orders"] = draw(build.orders_strategy())
    case["container"] = draw(st.sampled_from(build.CONTAINERS))
    case["plain_ints"] = draw(st.booleans())  # whole-number region bounds, sizes and spacings handed over as Python ints instead of floats
    return case


def check_rolling(case, ctx):
    shp = case["shape_in"]
    lay = build.Lay(case.get("orders"))
    e = lay(case["e"], shp)
    n = lay(case["n"], shp)
    coords = (e, n) + ((np.arange(e.size, dtype="float64").reshape(shp),) if case["extra"] else ())
    ints = case.get("plain_ints", False)
    size = plain(case["size"], ints)
    kw = {}
    if case["given_region"]:
        kw["region"] = tuple(plain(v, ints) for v in case["region"])
        region = list(case["region"])
    else:
        region = [float(e.min()), float(e.max()), float(n.min()), float(n.max())]
    if "shape" in case:
        kw["shape"] = tuple(case["shape"])
    else:
        kw["spacing"] = tuple(plain(v, ints) for v in case["spacing"])
        kw["adjust"] = case["adjust"]
    if min(region[1] - region[0], region[3] - region[2]) < size:
        try:
            res = vd.rolling_window(coords, size, **kw)
        except Exception:  # noqa: BLE001 - oversize windows must be rejected
            ctx.label("oversize_rejected")
            ctx.nt(True)
            return
        raise Violation("window size %r larger than the region %r was accepted" % (size, region))
    import warnings

    if "spacing" in case:
        # harness guard: an inferred region can be much larger than the one the spacing was drawn for
        we_, wn_ = (region[0] + size / 2, region[1] - size / 2), (region[2] + size / 2, region[3] - size / 2)
        if (we_[1] - we_[0]) / case["spacing"][1] > 1e3 or (wn_[1] - wn_[0]) / case["spacing"][0] > 1e3:
            ctx.skip("too_many_windows_for_the_oracle")
    with warnings.catch_warnings():
        warnings.simplefilter("ignore")
        centers, indices = vd.rolling_window(tuple(build.present(c, case.get("container")) for c in coords), size, **kw)
    ctx.check(len(centers) == 2, "centres must be (easting, northing)")
    ce, cn = np.asarray(centers[0]), np.asarray(centers[1])
    ctx.check(ce.ndim == 2 and ce.shape == cn.shape, "centres must be 2-D arrays of equal shape")
    ctx.check(isinstance(indices, np.ndarray) and indices.shape == ce.shape, "indices must have the centres' shape %s", ce.shape)
    # centres: regular grid over the region shrunk by size/2 on each side
    we = (region[0] + size / 2, region[1] - size / 2)
    wn = (region[2] + size / 2, region[3] - size / 2)
    # a window as large as the region: round-off may make the two bounds cross by a few ulps; the centres then sit on the region's centre line
    if we[0] > we[1]:
        we = ((region[0] + region[1]) / 2,) * 2
    if wn[0] > wn[1]:
        wn = ((region[2] + region[3]) / 2,) * 2
    ctx.check(np.all(ce == ce[0:1, :]) and np.all(cn == cn[:, 0:1]), "centres are not a meshgrid")
    if "shape" in case:
        me = line_models(we[0], we[1], size=case["shape"][1])
        mn = line_models(wn[0], wn[1], size=case["shape"][0])
    else:
        me = line_models(we[0], we[1], spacing=case["spacing"][1], adjust=case["adjust"])
        mn = line_models(wn[0], wn[1], spacing=case["spacing"][0], adjust=case["adjust"])
    ke, why_e = match_line(ce[0, :], me, region[0], region[1])
    kn, why_n = match_line(cn[:, 0], mn, region[2], region[3])
    if ke is None or kn is None:
        raise Violation("window centres are not the regular grid of the region shrunk by half a window: east %s; north %s (size %r, region %r, %r)"
                        % (why_e, why_n, size, region, kw))
    exact = case["mode"] == "lattice"
    half = Fraction(size) / 2
    slack = Fraction(0) if exact else Fraction(size) / 10**9
    fe = [fr(v) for v in e.ravel()]
    fn = [fr(v) for v in n.ravel()]
    covered = np.zeros(e.size, dtype=bool)
    pops = []
    edge_points = 0
    for i in range(ce.shape[0]):
        for j in range(ce.shape[1]):
            idx = indices[i, j]
            ctx.check(isinstance(idx, tuple) and len(idx) == e.ndim, "each index must be a tuple of %d arrays", e.ndim)
            for a in idx:
                ctx.check(np.issubdtype(np.asarray(a).dtype, np.integer), "index arrays must be integers (window %d,%d)", i, j)
            sel_e = e[idx]  # must index directly
            ctx.check(np.asarray(sel_e).ndim == 1, "indexing with a window's indices must give a 1-D selection")
            flat_sel = set(np.ravel_multi_index(idx, e.shape).tolist()) if e.size else set()
            ctx.check(len(flat_sel) == np.asarray(idx[0]).size, "duplicate indices in window %d,%d", i, j)
            cx, cy = exact_value(ce[i, j], "window centre"), exact_value(cn[i, j], "window centre")
            for k in range(e.size):
                dx, dy = abs(fe[k] - cx), abs(fn[k] - cy)
                d = max(dx, dy)
                if abs(dx - half) <= slack or abs(dy - half) <= slack:
                    if not exact:
                        continue
                if d == half:
                    edge_points += 1
                inside = d <= half
                if inside != (k in flat_sel):
                    raise Violation("window %d,%d centre (%r, %r) size %r: point %d (%r, %r) is %s the window but %s selected" % (
                        i, j, float(cx), float(cy), size, k, float(fe[k]), float(fn[k]), "inside" if inside else "outside",
                        "is" if k in flat_sel else "is not"))
            for k in flat_sel:
                covered[k] = True
            pops.append(len(flat_sel))
    # coverage
    def spans(vals, lo, hi):
        return float(vals[0]) <= lo and float(vals[-1]) >= hi

    step_e = float(np.max(np.diff(ce[0, :]))) if ce.shape[1] > 1 else 0.0
    step_n = float(np.max(np.diff(cn[:, 0]))) if ce.shape[0] > 1 else 0.0
    if step_e <= size and step_n <= size and spans(ce[0, :], we[0], we[1]) and spans(cn[:, 0], wn[0], wn[1]):
        margin = Fraction(0) if exact else Fraction(size) / 10**9
        for k in range(e.size):
            if (fr(region[0]) + margin <= fe[k] <= fr(region[1]) - margin) and (fr(region[2]) + margin <= fn[k] <= fr(region[3]) - margin):
                # exempt points within round-off of a seam between windows (free mode)
                if not exact:
                    near = any(abs(abs(fe[k] - fr(c)) - half) <= slack for c in ce[0, :]) or any(abs(abs(fn[k] - fr(c)) - half) <= slack for c in cn[:, 0])
                    if near:
                        continue
                if not covered[k]:
                    raise Violation("windows overlap (steps %r, %r <= size %r) but point (%r, %r) inside the region %r is in no window" % (
                        step_e, step_n, size, float(fe[k]), float(fn[k]), region))
        ctx.label("coverage_asserted")
    ctx.label(case["mode"], "shape" if "shape" in case else "spacing_" + case["adjust"], "ndim%d" % e.ndim,
              "region_given" if case["given_region"] else "region_inferred")
    if 0 in pops:
        ctx.label("empty_window")
    if edge_points:
        ctx.label("point_on_edge")
    ctx.nt(len(pops) >= 2 and len(set(pops)) >= 2)


@st.composite
def expanding_cases(draw):
    lattice = draw(st.booleans())
    npts = draw(st.integers(1, 40))
    if lattice:
        q = draw(st.sampled_from([0.5, 0.25, 1.0]))
        es = [k * q for k in draw(st.lists(st.integers(-20, 20), min_size=npts, max_size=npts))]
        ns = [k * q for k in draw(st.lists(st.integers(-20, 20), min_size=npts, max_size=npts))]
        center = [draw(st.integers(-20, 20)) * q, draw(st.integers(-20, 20)) * q]
        sizes = [k * q * 2 for k in draw(st.lists(st.integers(0, 24), min_size=1, max_size=6))]
    else:
        es = draw(st.lists(gen.finite(-100, 100), min_size=npts, max_size=npts))
        ns = draw(st.lists(gen.finite(-100, 100), min_size=npts, max_size=npts))
        center = [draw(gen.finite(-100, 100)), draw(gen.finite(-100, 100))]
        sizes = draw(st.lists(gen.finite(0.0, 300.0), min_size=1, max_size=6))
    return dict(mode="lattice" if lattice else "free", e=es, n=ns, center=center, sizes=sizes,
                shape_in=draw(st.sampled_from(blocks.shape_options(npts))), extra=draw(st.booleans()), orders=draw(build.orders_strategy()), container=draw(st.sampled_from(build.CONTAINERS)))


def check_expanding(case, ctx):
    shp = case["shape_in"]
    lay = build.Lay(case.get("orders"))
    e = lay(case["e"], shp)
    n = lay(case["n"], shp)
    coords = (e, n) + ((np.zeros(shp),) if case["extra"] else ())
    sizes = case["sizes"]
    # "sizes : array": a list, a tuple, an array; a one-shot iterator is not promised, so it may be refused - but not answered wrongly
    form = ["list", "tuple", "array", "iterator", "list"][build.small_hash(case, 9) % 5]
    sizes_arg = {"list": list, "tuple": tuple, "array": lambda v: np.array(v, dtype="float64"), "iterator": lambda v: iter(list(v))}[form](sizes)
    pcoords = tuple(build.present(c, case.get("container")) for c in coords)
    if form == "iterator":
        try:
            res = vd.expanding_window(pcoords, tuple(case["center"]), sizes_arg)
        except Exception:  # noqa: BLE001
            ctx.label("sizes_iterator_refused")
            ctx.nt(False)
            return
    else:
        res = vd.expanding_window(pcoords, tuple(case["center"]), sizes_arg)
    ctx.check(len(res) == len(sizes), "one index set per size expected (%d sizes given as %s), got %d", len(sizes), form, len(res))
    exact = case["mode"] == "lattice"
    cx, cy = fr(case["center"][0]), fr(case["center"][1])
    fe = [fr(v) for v in e.ravel()]
    fn = [fr(v) for v in n.ravel()]
    sets = []
    for size, idx in zip(sizes, res):
        ctx.check(isinstance(idx, tuple) and len(idx) == e.ndim, "each index must be a tuple of %d arrays", e.ndim)
        _ = e[idx]
        sel = set(np.ravel_multi_index(idx, e.shape).tolist())
        half = Fraction(size) / 2
        slack = Fraction(0) if exact else Fraction(max(size, 1e-300)) / 10**9
        for k in range(e.size):
            dx, dy = abs(fe[k] - cx), abs(fn[k] - cy)
            if not exact and (abs(dx - half) <= slack or abs(dy - half) <= slack):
                continue
            inside = max(dx, dy) <= half
            if inside != (k in sel):
                raise Violation("expanding window size %r at %r: point %d (%r, %r) is %s the window but %s selected" % (
                    size, case["center"], k, float(fe[k]), float(fn[k]), "inside" if inside else "outside", "is" if k in sel else "is not"))
        sets.append((size, sel))
    if exact:
        for sa, a in sets:
            for sb, b in sets:
                if sa <= sb:
                    ctx.check(a <= b, "windows are not nested: size %r selects points that size %r does not", sa, sb)
    ctx.label(case["mode"], "ndim%d" % e.ndim, "sizes%d" % len(sizes), "sizes_as_" + form)
    if sorted(sizes) != sizes:
        ctx.label("unordered_sizes")
    ctx.nt(len({len(s) for _, s in sets}) >= 2)


@st.composite
def reject_cases(draw):
    region = draw(gen.regions(max_exp=3))
    return dict(kind=draw(st.sampled_from(["no_shape_or_spacing", "oversize", "shape_mismatch"])), region=region,
                factor=draw(gen.finite(1.01, 10)))


def check_reject(case, ctx):
    w, e, s, n = case["region"]
    pts = (np.array([w, e, (w + e) / 2, w]), np.array([s, n, (s + n) / 2, n]))
    side = min(e - w, n - s)
    calls = {
        "no_shape_or_spacing": lambda: vd.rolling_window(pts, side / 2),
        "oversize": lambda: vd.rolling_window(pts, side * case["factor"], shape=(2, 2)),
        "shape_mismatch": lambda: vd.rolling_window((pts[0], pts[1][:-1]), side / 2, shape=(2, 2)),
    }
    try:
        res = calls[case["kind"]]()
    except Exception:  # noqa: BLE001
        ctx.label(case["kind"])
        ctx.nt(True)
        return
    raise Violation("invalid rolling_window call (%s) was accepted: %r" % (case["kind"], res))


# ---------------------------------------------------------------- large inputs (vectorised oracle)
@st.composite
def large_cases(draw):
    return dict(n=draw(st.sampled_from([20000, 60000])), seed=draw(st.integers(0, 10**6)), nwe=draw(st.integers(1, 9)), nwn=draw(st.integers(1, 9)),
                offset=draw(st.sampled_from([0.0, 0.0, 512000.0, -7.52e6])), frac=draw(st.sampled_from([0.5, 1.0, 0.25])), shape2d=draw(st.booleans()))


def check_large(case, ctx):
    """tens of thousands of points on a dyadic lattice (no point on a window edge): every window's members by a vectorised closed-square test"""
    rng = np.random.RandomState(case["seed"])  # a pure function of the generated case
    off, n = case["offset"], case["n"]
    size = 8.0
    step = size * case["frac"]
    width_e, width_n = size + (case["nwe"] - 1) * step, size + (case["nwn"] - 1) * step
    region = (off, off + width_e, -off, -off + width_n)
    # points at odd multiples of 1/16: never on a window edge (edges are multiples of 1/8 from the region's corner)
    e = off + (2 * rng.randint(-8, int(width_e * 8) + 8, size=n) + 1) / 16.0
    nn = -off + (2 * rng.randint(-8, int(width_n * 8) + 8, size=n) + 1) / 16.0
    if case["shape2d"]:
        e, nn = e.reshape(4, -1), nn.reshape(4, -1)
    centres, idx = vd.rolling_window((e, nn), size=size, shape=(case["nwn"], case["nwe"]), region=region)
    ce, cn = np.asarray(centres[0]), np.asarray(centres[1])
    ctx.check(ce.shape == (case["nwn"], case["nwe"]) and idx.shape == (case["nwn"], case["nwe"]), "centres / indices must have the window grid's shape")
    exp_ce = region[0] + size / 2 + step * np.arange(case["nwe"])
    exp_cn = region[2] + size / 2 + step * np.arange(case["nwn"])
    ctx.check(np.allclose(ce, exp_ce[None, :], rtol=0, atol=1e-9 * max(abs(off), 1.0)) and np.allclose(cn, exp_cn[:, None], rtol=0, atol=1e-9 * max(abs(off), 1.0)),
              "window centres are not the regular grid over the region shrunk by half a window")
    covered = np.zeros(e.shape, dtype=bool)
    for i in range(case["nwn"]):
        for j in range(case["nwe"]):
            members = np.zeros(e.shape, dtype=bool)
            members[idx[i, j]] = True
            exp = (np.abs(e - exp_ce[j]) <= size / 2) & (np.abs(nn - exp_cn[i]) <= size / 2)
            if not np.array_equal(members, exp):
                k = np.argwhere(members != exp)[0]
                raise Violation("window (%d, %d) centred at (%r, %r), size %r over %d points: point %r (%r, %r) is %s but %s the closed square" % (
                    i, j, float(exp_ce[j]), float(exp_cn[i]), size, n, k.tolist(), float(e[tuple(k)]), float(nn[tuple(k)]),
                    "selected" if members[tuple(k)] else "not selected", "outside" if members[tuple(k)] else "inside"))
            covered |= members
    inside = (e >= region[0]) & (e <= region[1]) & (nn >= region[2]) & (nn <= region[3])
    ctx.check(np.all(covered[inside]), "points inside the region belong to no window although the step (%r) does not exceed the size (%r)", step, size)
    ctx.label("n%d" % n, "windows%d" % (case["nwn"] * case["nwe"]), "utm" if off else "local", "2d" if case["shape2d"] else "1d")
    ctx.nt(case["nwn"] * case["nwe"] >= 2)


SUBCHECKS = [
    Sub("rolling", check_rolling, strategy=rolling_cases(), quick=250, thorough=1500, shards_quick=4,
        doc="centres vs the C07 model on the shrunk region; per-window membership (closed square), index form, empty windows, coverage"),
    Sub("expanding", check_expanding, strategy=expanding_cases(), quick=600, thorough=3000,
        doc="expanding_window membership per size, order of sizes, nesting"),
    Sub("rejects", check_reject, strategy=reject_cases(), quick=150, thorough=500, shards_thorough=2,
        doc="oversize windows, missing shape/spacing and mismatching coordinate shapes are rejected"),
    Sub("large", check_large, strategy=large_cases(), quick=8, thorough=40, heavy=True,
        doc="20 000 - 60 000 points (also 2-D, also at UTM-sized offsets): window centres, members of every window and coverage by vectorised tests"),
]
