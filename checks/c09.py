"""C09 - BlockReduce returns one correctly reduced value per non-empty block."""
import numpy as np
import verde as vd
from hypothesis import strategies as st

from vlib import blocks, gen
from vlib import build as vbuild
from vlib.runner import Sub, Violation

PROPERTY = "C09"
RULE = ("block grid and per-block populations (0..5, so empty, single-member and crowded blocks occur) chosen first, points placed strictly "
        "inside their blocks, non-constant data with 1-3 mutually different components, weights none or different per component, reduction in "
        "{mean, median, sum, min, max, weighted average, custom weighted sum}; non-trivial = >= 2 non-empty blocks with different populations "
        "and (an empty block or weights); distinct = SHA-1 of the case")
ASSUMPTIONS = [
    "membership is known by construction and recomputed exactly from the float coordinates; points are >= 2% of a block away from edges",
    "reductions are compared with 1e-12 relative to the largest member magnitude (times the member count for sums)",
    "weights are only passed together with reductions that accept a weights argument (np.average or a harness-defined weighted sum), as documented",
]


def wsum(values, weights=None):
    values = np.asarray(values, dtype="float64")
    if weights is None:
        return float(np.sum(values))
    return float(np.sum(values * np.asarray(weights, dtype="float64")))


REDUCTIONS = {"mean": np.mean, "median": np.median, "sum": np.sum, "min": np.min, "max": np.max, "average": np.average, "wsum": wsum}
WEIGHTED = ("average", "wsum")


def value_lists(draw, n, kind):
    if kind == "int":
        return [float(v) for v in draw(st.lists(st.integers(-1000, 1000), min_size=n, max_size=n))]
    if kind == "big":
        return draw(st.lists(gen.finite(-1e6, 1e6), min_size=n, max_size=n))
    return draw(st.lists(gen.finite(-10, 10), min_size=n, max_size=n))


@st.composite
def cases(draw, allow_unweighted_reductions=True):
    lay = draw(blocks.layouts())
    pts = draw(blocks.interior_points(lay, min_points=2, max_points=36))
    if lay["pres"] == "inferred":
        pts = pts + blocks.corner_points(lay)
    n = len(pts)
    ncomp = draw(st.integers(1, 3))
    kind = draw(st.sampled_from(["int", "free", "big"]))
    data = []
    for c in range(ncomp):
        vals = value_lists(draw, n, kind)
        # make components different from each other and non-constant by construction
        vals = [v + (c + 1) * 1000.0 + 0.5 * k * (c + 1) for k, v in enumerate(vals)]
        data.append(vals)
    has_w = draw(st.booleans())
    if has_w:
        red = draw(st.sampled_from(list(WEIGHTED)))
        weights = [draw(st.lists(st.one_of(gen.finite(0.01, 100), st.integers(1, 9).map(float)), min_size=n, max_size=n)) for _ in range(ncomp)]
        # zero weights: such a point contributes nothing to the weighted value but is still a member of its block (coordinates, inferred region);
        # never every member of a block (numpy.average refuses weights that sum to zero)
        members = {}
        for idx, p in enumerate(pts):
            members.setdefault((p[0], p[2]), []).append(idx)
        for idxs in members.values():
            if len(idxs) >= 2 and draw(st.integers(0, 2)) == 0:
                victim = draw(st.sampled_from(idxs))
                for c in (range(ncomp) if draw(st.booleans()) else [draw(st.integers(0, ncomp - 1))]):
                    weights[c][victim] = 0.0
    else:
        red = draw(st.sampled_from(list(REDUCTIONS)))
        weights = None
    n_extra = draw(st.integers(0, 2))
    extra = [value_lists(draw, n, "free") for _ in range(n_extra)]
    return dict(layout=lay, points=pts, data=data, weights=weights, reduction=red, center=draw(st.booleans()),
                drop=draw(st.booleans()), extra=extra, shape=draw(st.sampled_from(blocks.shape_options(n))),
                weights_1d=draw(st.booleans()), orders=draw(vbuild.orders_strategy()), container=draw(st.sampled_from(vbuild.CONTAINERS)))


def build(case):
    lay, pts = case["layout"], case["points"]
    shape = case["shape"]
    xy = [blocks.point_xy(lay, p) for p in pts]
    lay = vbuild.Lay(case.get("orders"))
    e = lay([p[0] for p in xy], shape)
    n = lay([p[1] for p in xy], shape)
    e, n = blocks.pixel_array(case["layout"], e), blocks.pixel_array(case["layout"], n)
    coords = (e, n) + tuple(lay(x, shape) for x in case["extra"])
    data = tuple(lay(d, shape) for d in case["data"])
    weights = None
    if case["weights"] is not None:
        weights = tuple(lay(w, shape if not case.get("weights_1d") else [-1]) for w in case["weights"])
    return coords, data, weights


def close(a, b, scale, count=1):
    return abs(a - b) <= 1e-12 * max(scale, 1e-300) * max(count, 1)


def check(case, ctx):
    lay = case["layout"]
    coords, data, weights = build(case)
    kw = blocks.verde_kwargs(lay)
    mem = blocks.exact_membership(coords[0].ravel(), coords[1].ravel(), kw, coords)
    if mem is None:
        ctx.skip("ambiguous_membership")
    grid, labels = mem
    labels = np.array(labels)
    red = REDUCTIONS[case["reduction"]]
    reducer = vd.BlockReduce(red, center_coordinates=case["center"], drop_coords=case["drop"], **kw)
    d_arg = data[0] if len(data) == 1 else data
    w_arg = None if weights is None else (weights[0] if len(weights) == 1 else weights)
    P = lambda a: vbuild.present(a, case.get("container"))  # noqa: E731
    pc = tuple(P(c) for c in coords)
    pc = vbuild.maybe_stack(pc, vbuild.stack_flag(case))
    pd_arg = P(d_arg) if not isinstance(d_arg, tuple) else tuple(P(x) for x in d_arg)
    pw_arg = None if w_arg is None else (P(w_arg) if not isinstance(w_arg, tuple) else tuple(P(x) for x in w_arg))
    if vbuild.plain_flag(case):
        # the same object is used on another (mirrored, shorter, shifted and shrunk) data set first: a reducer holds parameters only, nothing may carry over
        try:
            vbuild.quiet(reducer.filter, tuple(np.ravel(c)[::-1][:-1] * 0.5 + 3.25 for c in coords), np.ravel(data[0])[::-1][:-1] * 1.0)
        except Exception:  # noqa: BLE001 - only its side effects matter here
            pass
    out = reducer.filter(pc, pd_arg, pw_arg) if weights is not None else reducer.filter(pc, pd_arg)
    ctx.check(isinstance(out, tuple) and len(out) == 2, "filter must return (coordinates, data)")
    out_coords, out_data = out
    if len(data) == 1:
        ctx.check(not isinstance(out_data, tuple), "single-component data must come back as an array")
        out_data = (out_data,)
    else:
        ctx.check(isinstance(out_data, tuple) and len(out_data) == len(data), "expected %d data components back", len(data))
    occupied = sorted(set(labels.tolist()))
    n_coords_exp = 2 if case["drop"] else len(coords)
    ctx.check(isinstance(out_coords, tuple), "the reduced coordinates come back as a %s, documented (and returned in every other configuration) is a tuple of arrays", type(out_coords).__name__)
    ctx.check(len(out_coords) == n_coords_exp, "expected %d coordinate arrays, got %d (drop_coords=%r)", n_coords_exp, len(out_coords), case["drop"])
    for arr in list(out_coords) + list(out_data):
        ctx.check(np.asarray(arr).shape == (len(occupied),),
                  "expected one entry per non-empty block (%d), got shape %s", len(occupied), np.asarray(arr).shape)
    flat_coords = [np.asarray(c).ravel() for c in coords]
    flat_data = [np.asarray(d).ravel() for d in data]
    flat_w = None if weights is None else [np.asarray(w).ravel() for w in weights]
    pops = []
    for pos, b in enumerate(occupied):
        members = np.where(labels == b)[0]
        pops.append(members.size)
        for c in range(len(data)):
            vals = flat_data[c][members]
            if flat_w is None:
                exp = float(red(vals))
            else:
                exp = float(red(vals, weights=flat_w[c][members]))
            got = float(np.asarray(out_data[c])[pos])
            scale = float(np.max(np.abs(vals))) * (float(np.max(flat_w[c][members])) if case["reduction"] == "wsum" and flat_w else 1.0)
            cnt = members.size if case["reduction"] in ("sum", "wsum") else 1
            if not close(got, exp, scale, cnt):
                raise Violation("block %d (output position %d), component %d: got %r, %s of its %d members %r%s is %r" % (
                    b, pos, c, got, case["reduction"], members.size, vals.tolist(),
                    "" if flat_w is None else " with weights %r" % flat_w[c][members].tolist(), exp))
        for k in range(n_coords_exp):
            got = float(np.asarray(out_coords[k])[pos])
            if case["center"] and k < 2:
                exp = blocks.block_centre(grid, b)[k]
                scale = max(abs(exp), abs(float(grid["W"])), abs(float(grid["S"])), 1e-300)
                ok = abs(got - exp) <= 1e-13 * scale + 16 * 2.3e-16 * scale
            else:
                vals = flat_coords[k][members]
                exp = float(red(vals))
                scale = float(np.max(np.abs(vals)))
                ok = close(got, exp, scale, members.size if case["reduction"] in ("sum", "wsum") else 1)
            if not ok:
                raise Violation("block %d (output position %d): coordinate %d is %r, expected %r (%s)" % (
                    b, pos, k, got, exp, "centre of that block" if case["center"] and k < 2 else "%s of member coordinates" % case["reduction"]))
    if case["reduction"] == "sum":
        for c in range(len(data)):
            tot, exp = float(np.sum(out_data[c])), float(np.sum(flat_data[c]))
            ctx.check(abs(tot - exp) <= 1e-12 * float(np.sum(np.abs(flat_data[c]))), "block sums add up to %r, input total is %r", tot, exp)
    nblocks = lay["nb_n"] * lay["nb_e"]
    ctx.label(case["reduction"], lay["pres"], "comps%d" % len(data), "weights" if weights is not None else "noweights",
              "center" if case["center"] else "reduced_coords", "drop" if case["drop"] else "keep_extra%d" % len(case["extra"]),
              "ndim%d" % coords[0].ndim, "layouts_" + "".join(sorted(set(case.get("orders") or ["C"]))) if coords[0].ndim == 2 else "1d")
    if len(occupied) < nblocks:
        ctx.label("has_empty_block")
    ctx.nt(len(occupied) >= 2 and len(set(pops)) >= 2 and (len(occupied) < nblocks or weights is not None))


def check_large(case, ctx):
    """tens of thousands of points: every block's mean / sum / weighted average against numpy.bincount on floor-division labels"""
    e, n, labels, region, spacing = blocks.big_cloud(case)
    inside = (e > region[0]) & (e < region[1]) & (n > region[2]) & (n < region[3])
    e, n, labels = e[inside], n[inside], labels[inside]  # outside points would join the border blocks: kept out so that the centres stay meaningful
    if e.size == 0:
        ctx.skip("no_points_inside")
    rng = np.random.RandomState(case["seed"] + 1)
    data = np.round(rng.uniform(-100, 100, e.size) * 64) / 64 + np.where(labels % 2 == 0, 1e3, -5e2)
    w = np.round(rng.uniform(0.25, 4, e.size) * 16) / 16
    kw = dict(spacing=spacing) if case["by"] == "spacing" else dict(shape=(case["nb_n"], case["nb_e"]))
    nb = case["nb_n"] * case["nb_e"]
    cnt = np.bincount(labels, minlength=nb)
    occ = np.nonzero(cnt)[0]
    for name, red, weights, exp in (("mean", np.mean, None, np.bincount(labels, data, nb)[occ] / cnt[occ]),
                                    ("sum", np.sum, None, np.bincount(labels, data, nb)[occ]),
                                    ("average", np.average, w, np.bincount(labels, data * w, nb)[occ] / np.bincount(labels, w, nb)[occ])):
        reducer = vd.BlockReduce(red, region=region, center_coordinates=True, **kw)
        (be, bn), got = reducer.filter((e, n), data) if weights is None else reducer.filter((e, n), data, weights)
        got = np.asarray(got)
        ctx.check(got.shape == occ.shape, "%s: %d values for %d non-empty blocks", name, got.size, occ.size)
        scale = np.maximum(np.abs(exp), 1.0) * (cnt[occ] if name == "sum" else 1)
        bad = np.abs(got - exp) > 1e-11 * scale
        if bad.any():
            k = int(np.argmax(bad))
            raise Violation("%s over %d points: block %d (%d members) gives %r, bincount gives %r" % (name, e.size, int(occ[k]), int(cnt[occ][k]), float(got[k]), float(exp[k])))
        ce = region[0] + (occ % case["nb_e"] + 0.5) * case["dx"]
        cn = region[2] + (occ // case["nb_e"] + 0.5) * case["dy"]
        ctx.check(np.array_equal(np.asarray(be), ce) and np.array_equal(np.asarray(bn), cn), "%s: block centres are not those of the non-empty blocks in ascending order", name)
    ctx.label("n%d" % e.size, case["by"])
    ctx.nt(occ.size >= 4)


SUBCHECKS = [
    Sub("block_reduce", check, strategy=cases(), quick=400, thorough=2500, shards_quick=4,
        doc="BlockReduce.filter vs brute-force reduction over membership known by construction (values, own weights, coordinates, centres, extra coords, order)"),
    Sub("large", check_large, strategy=blocks.big_cases, quick=8, thorough=40, heavy=True,
        doc="20 000 - 120 000 points, up to 1 600 blocks: mean, sum and weighted average per block against numpy.bincount"),
]
