"""C18 - grid <-> table conversions preserve every value at its own coordinates."""
import numpy as np
import verde as vd
import xarray as xr
from hypothesis import strategies as st

from vlib import build, gen
from vlib.runner import Sub, Violation

PROPERTY = "C18"
RULE = ("grid shapes 1..7 x 1..7 (single row/column and non-square included), non-uniform ascending/descending axis vectors, 1-4 data variables "
        "holding distinct values, 0-3 extra coordinates, default/custom dims and names, 1-D axis vectors or 2-D meshgrids, Dataset / named / unnamed "
        "DataArray inputs with coordinates declared in either order, and invalid variants; non-trivial = both dimensions >= 2 and different, or a "
        "demanded rejection; distinct = SHA-1 of the case")
ASSUMPTIONS = [
    "axis vectors hold pairwise distinct finite values (needed to address cells by coordinate)",
    "non-meshgrid inputs are perturbed by at least half the value magnitude in one cell, or sheared so that the last row/column is 3e-4 of the coordinate size away "
    "from the first (30 times numpy.allclose's default tolerance; the function documents 'rows identical' and tests it approximately)",
]


@st.composite
def axis(draw, n):
    kind = draw(st.sampled_from(["uniform", "uniform", "nonuniform", "nonuniform", "descending", "descending", "closing_value_twice"]))
    start = draw(st.one_of(st.integers(-100, 100).map(float), gen.finite(-1e4, 1e4)))
    if kind in ("uniform", "closing_value_twice"):
        step = draw(st.sampled_from([1.0, 0.5, 2.5, 10.0]))
        vals = [start + k * step for k in range(n)]
        if kind == "closing_value_twice" and n >= 3:
            vals[-1] = vals[0]  # a global grid whose closing meridian is stored at both ends (-180 and 180 wrapped to the same value): the cells stay distinct cells
    else:
        incs = draw(st.lists(st.one_of(st.integers(1, 20).map(float), gen.finite(0.01, 50)), min_size=n, max_size=n))
        vals, cur = [], start
        for inc in incs:
            vals.append(cur)
            cur = cur + inc
        if kind == "descending":
            vals = vals[::-1]
    return vals


@st.composite
def grid_cases(draw):
    nr, nc = draw(st.integers(1, 7)), draw(st.integers(1, 7))
    east = draw(axis(nc))
    north = draw(axis(nr))
    nvars = draw(st.integers(0, 4))
    seed = draw(st.integers(0, 10**6))
    nextra = draw(st.integers(0, 3))
    custom = draw(st.booleans())
    # axis dtypes may differ between the two directions (integer pixel indices against float positions, float32 against float64)
    east_dtype, north_dtype = draw(st.sampled_from(["float64", "float64", "int64", "float32", "int32"])), draw(st.sampled_from(["float64", "float64", "int64", "float32", "int32"]))
    if east_dtype.startswith("int"):
        east = [float(int(east[0])) + 3 * k * (1 if east[-1] >= east[0] else -1) for k in range(len(east))]
    if north_dtype.startswith("int"):
        north = [float(int(north[0])) + 2 * k * (1 if north[-1] >= north[0] else -1) for k in range(len(north))]
    if east_dtype == "float32":
        east = [float(np.float32(v)) for v in east]
    if north_dtype == "float32":
        north = [float(np.float32(v)) for v in north]
    if len(set(east)) < len(east) or len(set(north)) < len(north):
        east_dtype = north_dtype = "float64"
    case = dict(nr=nr, nc=nc, east=east, north=north, nvars=nvars, seed=seed, nextra=nextra, east_dtype=east_dtype, north_dtype=north_dtype, big_int=draw(st.booleans()),
                coords_2d=draw(st.booleans()), int_data=draw(st.booleans()),
                dims=["y_" + draw(st.sampled_from(["a", "lat", "northing"])), "x_" + draw(st.sampled_from(["b", "lon", "easting"]))] if custom else None,
                names=["var%d" % k for k in range(nvars)] if custom or nvars > 3 else None,
                data_names_form=draw(st.sampled_from(["tuple", "list", "str"])), orders=draw(build.orders_strategy()))
    return case


def values(case, k):
    """distinct values per variable k (k >= 100 for extra coordinates)"""
    nr, nc = case["nr"], case["nc"]
    rng = np.random.RandomState(case["seed"] + 7919 * k)  # seeded from the generated case: deterministic
    base = rng.permutation(nr * nc).astype("float64").reshape(nr, nc) + 1000.0 * (k + 1)
    if case["int_data"] and k < 100:
        if case.get("big_int"):
            # time stamps in nanoseconds: exact in int64, not in float64
            return base.astype("int64") + 1_700_000_000_000_000_000
        return base.astype("int64")
    return base + rng.uniform(0, 0.5, size=(nr, nc))


def exact_equal(a, b):
    """element-wise equality without silent int64 -> float64 promotion (which would round integers above 2**53 on both sides)"""
    a, b = np.asarray(a), np.asarray(b)
    if a.shape != b.shape:
        return False
    if a.dtype.kind in "iu" or b.dtype.kind in "iu":
        return [int(x) if float(x).is_integer() else float(x) for x in a.ravel().tolist()] == [int(x) if float(x).is_integer() else float(x) for x in b.ravel().tolist()]
    return bool(np.array_equal(a, b, equal_nan=True))


EXTRA_NAMES = ["upward", "time", "azimuth"]  # deliberately not in alphabetical order


def default_names(n):
    return [("scalars",), ("east_component", "north_component"), ("east_component", "north_component", "vertical_component")][n - 1]


def axes_of(case):
    return np.array(case["east"], dtype=case.get("east_dtype", "float64")), np.array(case["north"], dtype=case.get("north_dtype", "float64"))


def build_inputs(case):
    east, north = axes_of(case)
    if case["coords_2d"]:
        ee, nn = np.meshgrid(east, north)
        coords = [ee, nn]
    else:
        coords = [east, north]
    lay = build.Lay(case.get("orders"))
    shp = (case["nr"], case["nc"])
    if case["coords_2d"]:
        coords = [lay(c.ravel(), shp) for c in coords]
    extras = [lay(values(case, 100 + k).ravel(), shp) for k in range(case["nextra"])]
    coords = tuple(coords + extras)
    data = tuple(lay(values(case, k).ravel(), shp, dtype="int64" if case["int_data"] else "float64") for k in range(case["nvars"]))
    names = case["names"] if case["names"] is not None else (list(default_names(case["nvars"])) if case["nvars"] else None)
    extra_names = EXTRA_NAMES[: case["nextra"]] if case["nextra"] else None
    return coords, data, names, extra_names


def check_grid(case, ctx):
    coords, data, names, extra_names = build_inputs(case)
    east, north = axes_of(case)
    given_coords, given_data = coords, data
    kw = {}
    dims = ("northing", "easting")
    if case["dims"] is not None:
        dims = tuple(case["dims"])
        kw["dims"] = dims
    if extra_names is not None:
        kw["extra_coords_names"] = extra_names if len(extra_names) > 1 or case["data_names_form"] != "str" else extra_names[0]
    if case["nvars"] == 0:
        d_arg, n_arg = None, None
    elif case["nvars"] == 1:
        d_arg = given_data[0] if case["data_names_form"] != "tuple" else given_data
        n_arg = names[0] if case["data_names_form"] == "str" else (tuple(names) if case["data_names_form"] == "tuple" else list(names))
    else:
        d_arg = given_data
        n_arg = tuple(names) if case["data_names_form"] != "list" else list(names)
    ds = vd.make_xarray_grid(given_coords, d_arg, n_arg, **kw)
    ctx.check(isinstance(ds, xr.Dataset), "make_xarray_grid must return a Dataset")
    ctx.check(np.array_equal(ds.coords[dims[1]].values, east) and ds.coords[dims[1]].dims == (dims[1],), "easting coordinate vector wrong")
    ctx.check(np.array_equal(ds.coords[dims[0]].values, north) and ds.coords[dims[0]].dims == (dims[0],), "northing coordinate vector wrong")
    ctx.check(set(ds.data_vars) == set(names or []), "data variables %r, expected %r", list(ds.data_vars), names)
    for k, name in enumerate(names or []):
        ctx.check(ds[name].dims == dims, "variable %s has dims %r, expected %r", name, ds[name].dims, dims)
        ctx.check(ds[name].shape == (case["nr"], case["nc"]), "variable %s has shape %r", name, ds[name].shape)
        if not exact_equal(ds[name].values, data[k]):
            raise Violation("variable %s does not hold its source values cell by cell" % name)
        # address a few cells by coordinate
        for (i, j) in {(0, 0), (case["nr"] - 1, 0), (0, case["nc"] - 1), (case["nr"] // 2, case["nc"] // 2)} if len(set(east)) == len(east) and len(set(north)) == len(north) else ():
            got = ds[name].sel({dims[0]: north[i], dims[1]: east[j]}).values
            ctx.check(got == data[k][i, j] or (np.isnan(got) and np.isnan(data[k][i, j])), "variable %s at (northing=%r, easting=%r) is %r, source cell holds %r", name, north[i], east[j], got, data[k][i, j])
    for k, name in enumerate(extra_names or []):
        ctx.check(name in ds.coords and ds.coords[name].dims == dims, "extra coordinate %s missing or with wrong dims", name)
        ctx.check(np.array_equal(ds.coords[name].values, coords[2 + k], equal_nan=True), "extra coordinate %s does not hold its source values", name)
    # and back to a table
    if case["nvars"] > 0:
        table = vd.grid_to_table(ds)
        exp_cols = [dims[0], dims[1]] + list(extra_names or []) + list(names)
        ctx.check(sorted(table.columns) == sorted(exp_cols), "table columns %r, expected (in any order) %r", list(table.columns), exp_cols)
        ctx.check(len(table) == case["nr"] * case["nc"], "table has %d rows for %d cells", len(table), case["nr"] * case["nc"])
        ee, nn = np.meshgrid(east, north)
        ctx.check(np.array_equal(table[dims[1]].values, ee.ravel()), "table easting column is not the row-major meshgrid easting")
        ctx.check(np.array_equal(table[dims[0]].values, nn.ravel()), "table northing column is not the row-major meshgrid northing")
        for k, name in enumerate(names):
            ctx.check(exact_equal(table[name].values, data[k].ravel()), "table column %s is not the raveled input (values %r...)", name, table[name].values[:3].tolist())
        for k, name in enumerate(extra_names or []):
            ctx.check(np.array_equal(table[name].values, coords[2 + k].ravel(), equal_nan=True), "table column %s is not the raveled extra coordinate", name)
        # a single DataArray (named) and unnamed
        da = ds[names[0]]
        t2 = vd.grid_to_table(da)
        ctx.check(exact_equal(t2[names[0]].values, data[0].ravel()) and np.array_equal(t2[dims[1]].values, ee.ravel())
                  and np.array_equal(t2[dims[0]].values, nn.ravel()), "grid_to_table of a DataArray misplaces values")
    ctx.label("vars%d" % case["nvars"], "extra%d" % case["nextra"], "coords2d" if case["coords_2d"] else "coords1d",
              "custom_dims" if case["dims"] else "default_dims", "int" if case["int_data"] else "float",
              "axes_same_dtype" if case.get("east_dtype") == case.get("north_dtype") else "axes_mixed_dtype")
    if case["nr"] == 1 or case["nc"] == 1:
        ctx.label("single_row_or_col")
    if len(set(east.tolist())) < east.size or len(set(north.tolist())) < north.size:
        ctx.label("repeated_axis_value")
    ctx.nt(case["nr"] >= 2 and case["nc"] >= 2 and case["nr"] != case["nc"])


@st.composite
def table_cases(draw):
    case = draw(grid_cases())
    case["nvars"] = max(1, case["nvars"])
    if case["names"] is None and case["nvars"] > 3:
        case["names"] = ["var%d" % k for k in range(case["nvars"])]
    if case["names"] is not None:
        case["names"] = ["var%d" % k for k in range(case["nvars"])]
    case["kind"] = draw(st.sampled_from(["dataset", "dataarray_named", "dataarray_unnamed"]))
    case["coord_order"] = draw(st.sampled_from(["ne", "en"]))
    case["extra_position"] = draw(st.sampled_from(["after", "before", "between"]))
    case["var_order"] = draw(st.sampled_from(["fwd", "rev"]))
    return case


def check_table(case, ctx):
    """grids built directly with xarray (not through verde), coordinates declared in either order"""
    east, north = axes_of(case)
    dims = tuple(case["dims"]) if case["dims"] else ("northing", "easting")
    nvars = case["nvars"]
    names = case["names"] or list(default_names(nvars))
    data = [values(case, k) for k in range(nvars)]
    extras = [values(case, 100 + k) for k in range(case["nextra"])]
    cdict = {}
    order = [(dims[0], north), (dims[1], east)]
    if case["coord_order"] == "en":
        order = order[::-1]
    # xarray keeps coordinates in declaration order and any order is valid: extra coordinates after, before or between the index coordinates
    entries = list(order) + [(EXTRA_NAMES[k], (dims, ex)) for k, ex in enumerate(extras)]
    where = case.get("extra_position", "after")
    if extras and where == "before":
        entries = entries[2:] + entries[:2]
    elif extras and where == "between":
        entries = [entries[0]] + entries[2:] + [entries[1]]
    for name, vals in entries:
        cdict[name] = vals
    ee, nn = np.meshgrid(east, north)
    if case["kind"] == "dataset":
        items = list(zip(names, data))
        if case["var_order"] == "rev":
            items = items[::-1]
        grid = xr.Dataset({n: (dims, d) for n, d in items}, coords=cdict)
        table = vd.grid_to_table(grid)
        for n, d in items:
            ctx.check(exact_equal(table[n].values, d.ravel()), "column %s is not that variable's values in row-major order", n)
    else:
        name = names[0] if case["kind"] == "dataarray_named" else None
        grid = xr.DataArray(data[0], coords=cdict, dims=dims, name=name)
        table = vd.grid_to_table(grid)
        col = name if name is not None else "scalars"
        ctx.check(col in table.columns, "expected a column %r, got %r", col, list(table.columns))
        ctx.check(exact_equal(table[col].values, data[0].ravel()), "data column is not the values in row-major order")
    ctx.check(len(table) == case["nr"] * case["nc"], "table has %d rows for %d cells", len(table), case["nr"] * case["nc"])
    ctx.check(dims[0] in table.columns and dims[1] in table.columns, "the northing and easting dims must be columns, got %r", list(table.columns))
    ctx.check(np.array_equal(table[dims[1]].values, ee.ravel()), "easting column is not each cell's easting")
    ctx.check(np.array_equal(table[dims[0]].values, nn.ravel()), "northing column is not each cell's northing")
    for k, ex in enumerate(extras):
        ctx.check(EXTRA_NAMES[k] in table.columns, "the table of a grid with the extra coordinate %r (declared %s the index coordinates) has no such column: %r", EXTRA_NAMES[k], where, list(table.columns))
        ctx.check(np.array_equal(table[EXTRA_NAMES[k]].values, ex.ravel()), "extra coordinate column %s does not hold that coordinate's values", EXTRA_NAMES[k])
    ctx.label(case["kind"], "coords_" + case["coord_order"], "extra%d" % case["nextra"], *(["extras_" + where] if extras else []))
    ctx.nt(case["nr"] >= 2 and case["nc"] >= 2 and case["nr"] != case["nc"])


@st.composite
def meshgrid_cases(draw):
    nr, nc = draw(st.integers(1, 7)), draw(st.integers(1, 7))
    return dict(nr=nr, nc=nc, east=draw(axis(nc)), north=draw(axis(nr)), nextra=draw(st.integers(0, 2)), seed=draw(st.integers(0, 10**6)), int_data=False)


def check_meshgrid(case, ctx):
    east, north = np.array(case["east"]), np.array(case["north"])
    extras = [values(case, 100 + k) for k in range(case["nextra"])]
    out = vd.utils.meshgrid_from_1d((east, north, *extras))
    ctx.check(len(out) == 2 + len(extras), "meshgrid_from_1d must keep the extra coordinates")
    ee, nn = np.meshgrid(east, north)
    ctx.check(np.array_equal(out[0], ee) and np.array_equal(out[1], nn), "meshgrid_from_1d is not meshgrid(easting, northing)")
    for a, b in zip(out[2:], extras):
        ctx.check(np.array_equal(a, b), "extra coordinate changed")
    back = vd.utils.meshgrid_to_1d(out)
    ctx.check(np.array_equal(back[0], east) and np.array_equal(back[1], north), "meshgrid_to_1d does not invert meshgrid_from_1d")
    for a, b in zip(back[2:], extras):
        ctx.check(np.array_equal(a, b), "extra coordinate changed")
    again = vd.utils.meshgrid_from_1d(back)
    ctx.check(np.array_equal(again[0], ee) and np.array_equal(again[1], nn), "meshgrid_from_1d does not invert meshgrid_to_1d")
    ctx.label("extra%d" % len(extras))
    ctx.nt(case["nr"] >= 2 and case["nc"] >= 2 and case["nr"] != case["nc"])


@st.composite
def invalid_cases(draw):
    nr, nc = draw(st.integers(2, 6)), draw(st.integers(2, 6))
    return dict(nr=nr, nc=nc, east=draw(axis(nc)), north=draw(axis(nr)), seed=draw(st.integers(0, 10**6)), int_data=False,
                kind=draw(st.sampled_from(["not_meshgrid_e", "not_meshgrid_n", "names_short", "names_long", "extra_names_none",
                                           "extra_names_count", "mixed_ndim", "from_1d_given_2d", "to_1d_not_meshgrid", "names_none", "drift_e", "drift_n", "drift_to_1d", "row_northing_varies", "column_easting_varies", "row_to_1d"])),
                i=draw(st.integers(0, nr - 1)), j=draw(st.integers(0, nc - 1)))


def check_invalid(case, ctx):
    east, north = np.array(case["east"]), np.array(case["north"])
    ee, nn = np.meshgrid(east, north)
    d0, d1, ex = values(case, 0), values(case, 1), values(case, 100)
    i, j = case["i"], case["j"]
    bad_e, bad_n = ee.copy(), nn.copy()
    bad_e[i, j] += 0.5 * max(1.0, abs(bad_e[i, j])) + (np.ptp(east) if nc_gt1(east) else 1.0)
    bad_n[i, j] += 0.5 * max(1.0, abs(bad_n[i, j])) + (np.ptp(north) if nc_gt1(north) else 1.0)
    # a sheared "grid": every row (column) differs from its neighbour by less than a round-off-like 5e-6 of the coordinate size, the last one from the
    # first by 3e-4 of it (e.g. 150 m in UTM coordinates): the rows are not identical, the arrays are not a meshgrid
    base = 10.0 ** (1 + case["seed"] % 6)
    de, dn = np.meshgrid(base + 10.0 * np.arange(7), base + 10.0 * np.arange(61))
    drift_e = de + (5e-6 * base) * np.arange(61)[:, None]
    dn2, de2 = np.meshgrid(base + 10.0 * np.arange(7), base + 10.0 * np.arange(61), indexing="ij")  # 7 rows, 61 columns
    drift_n = dn2 + (5e-6 * base) * np.arange(61)[None, :]
    dd = np.zeros(de.shape)
    # a single row whose northing changes along the row, a single column whose easting changes down the column: 2-D inputs that are not meshgrids
    row_e, row_n = np.array([[1.0, 2.0, 3.0, 4.0]]), np.array([[5.0, 6.0, 7.0, 8.0]])
    col_e, col_n = np.array([[1.0], [2.0], [3.0]]), np.array([[5.0], [6.0], [7.0]])
    calls = {
        "row_northing_varies": lambda: vd.make_xarray_grid((row_e, row_n), np.zeros((1, 4)), "a"),
        "column_easting_varies": lambda: vd.make_xarray_grid((col_e, col_n), np.zeros((3, 1)), "a"),
        "row_to_1d": lambda: vd.utils.meshgrid_to_1d((row_e, row_n)),
        "drift_e": lambda: vd.make_xarray_grid((drift_e, dn), dd, "a"),
        "drift_n": lambda: vd.make_xarray_grid((de2, drift_n), dd.T, "a"),
        "drift_to_1d": lambda: vd.utils.meshgrid_to_1d((drift_e, dn)),
        "not_meshgrid_e": lambda: vd.make_xarray_grid((bad_e, nn), d0, "a"),
        "not_meshgrid_n": lambda: vd.make_xarray_grid((ee, bad_n), d0, "a"),
        "names_short": lambda: vd.make_xarray_grid((east, north), (d0, d1), ("a",)),
        "names_long": lambda: vd.make_xarray_grid((east, north), d0, ("a", "b")),
        "names_none": lambda: vd.make_xarray_grid((east, north), d0, None),
        "extra_names_none": lambda: vd.make_xarray_grid((east, north, ex), d0, "a"),
        "extra_names_count": lambda: vd.make_xarray_grid((east, north, ex), d0, "a", extra_coords_names=("u", "v")),
        "mixed_ndim": lambda: vd.make_xarray_grid((ee, north), d0, "a"),
        "from_1d_given_2d": lambda: vd.utils.meshgrid_from_1d((ee, nn)),
        "to_1d_not_meshgrid": lambda: vd.utils.meshgrid_to_1d((bad_e, nn)),
    }
    try:
        res = calls[case["kind"]]()
    except Exception:  # noqa: BLE001
        ctx.label(case["kind"])
        ctx.nt(True)
        return
    raise Violation("invalid input (%s) was accepted: %r" % (case["kind"], res))


def nc_gt1(a):
    return a.size > 1


# ---------------------------------------------------------------- large grids
@st.composite
def large_cases(draw):
    return dict(nr=draw(st.sampled_from([1, 37, 300, 1000])), nc=draw(st.sampled_from([1, 53, 500, 800])), seed=draw(st.integers(0, 10**6)), nvars=draw(st.integers(1, 3)),
                extra=draw(st.integers(0, 2)), two_d=draw(st.booleans()), dims=draw(st.sampled_from([None, ["lat", "lon"]])))


def check_large(case, ctx):
    rng = np.random.RandomState(case["seed"])  # a pure function of the generated case
    nr, nc = case["nr"], case["nc"]
    east = np.cumsum(rng.uniform(0.5, 2.0, nc)) + 1000.0
    north = np.cumsum(rng.uniform(0.5, 2.0, nr)) - 500.0
    ee, nn = np.meshgrid(east, north)
    data = [rng.uniform(-1, 1, (nr, nc)) + k for k in range(case["nvars"])]
    extras = [rng.uniform(0, 1, (nr, nc)) + 10 * (k + 1) for k in range(case["extra"])]
    names = ["v%d" % k for k in range(case["nvars"])]
    xnames = ["x%d" % k for k in range(case["extra"])]
    coords = ((ee, nn) if case["two_d"] else (east, north)) + tuple(extras)
    kw = {} if case["dims"] is None else dict(dims=tuple(case["dims"]))
    if xnames:
        kw["extra_coords_names"] = xnames if len(xnames) > 1 else xnames[0]
    grid = vd.make_xarray_grid(coords, tuple(data) if len(data) > 1 else data[0], names if len(names) > 1 else names[0], **kw)
    dims = tuple(case["dims"]) if case["dims"] else ("northing", "easting")
    for name, arr in zip(names, data):
        ctx.check(grid[name].dims == dims and np.array_equal(grid[name].values, arr), "variable %s of a %d x %d grid does not hold its source array", name, nr, nc)
    ctx.check(np.array_equal(grid.coords[dims[1]].values, east) and np.array_equal(grid.coords[dims[0]].values, north), "axis coordinates of the grid are not the given ones")
    for name, arr in zip(xnames, extras):
        ctx.check(grid.coords[name].dims == dims and np.array_equal(grid.coords[name].values, arr), "extra coordinate %s is misplaced", name)
    table = vd.grid_to_table(grid)
    ctx.check(len(table) == nr * nc, "table has %d rows for a %d x %d grid", len(table), nr, nc)
    ctx.check(np.array_equal(table[dims[0]].values, nn.ravel()) and np.array_equal(table[dims[1]].values, ee.ravel()), "table coordinates are not the row-major meshgrid")
    for name, arr in zip(names + xnames, data + extras):
        ctx.check(np.array_equal(table[name].values, arr.ravel()), "table column %s is not the raveled source array", name)
    ctx.label("%dx%d" % (nr, nc), "2d" if case["two_d"] else "1d", "extra%d" % case["extra"])
    ctx.nt(nr * nc > 1)


SUBCHECKS = [
    Sub("arrays_to_grid_to_table", check_grid, strategy=grid_cases(), quick=400, thorough=2500, shards_quick=2,
        doc="make_xarray_grid places every value/extra coordinate at its cell; names/dims honoured; grid_to_table returns the raveled inputs"),
    Sub("xarray_to_table", check_table, strategy=table_cases(), quick=400, thorough=2500, shards_quick=2,
        doc="grid_to_table on Datasets/DataArrays built directly with xarray, coordinates and variables declared in either order"),
    Sub("meshgrid_roundtrip", check_meshgrid, strategy=meshgrid_cases(), quick=400, thorough=1500, shards_thorough=4,
        doc="meshgrid_from_1d and meshgrid_to_1d are mutually inverse and keep extra coordinates"),
    Sub("invalid", check_invalid, strategy=invalid_cases(), quick=300, thorough=1000, shards_thorough=4,
        doc="2-D inputs that are not meshgrids, mixed dimensions and name-count mismatches are rejected"),
    Sub("large", check_large, strategy=large_cases(), quick=10, thorough=60, heavy=True,
        doc="grids of up to 1000 x 800 cells (also single row/column): arrays -> Dataset -> table against numpy ravel"),
]
