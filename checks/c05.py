"""C05 - grid/profile/scatter place each prediction at the right coordinate."""
import warnings

import numpy as np
import pandas as pd
import verde as vd
import xarray as xr
from hypothesis import strategies as st

from vlib import defaults, gen
from vlib import build as vbuild
from vlib.build import quiet
from vlib.runner import Sub, Violation

PROPERTY = "C05"
RULE = ("regions (any origin/extent), shapes (non-square favoured) or spacings (scalar or per direction), both adjust modes and registrations, "
        "explicit 1-D or meshgrid coordinates, 0-2 extra coordinates, default or custom dims/data names, 1-3 data components, projections with "
        "inverses (per-axis affine incl. negative scale, sinh), and gridders: a harness-defined asymmetric analytic BaseGridder (with or without "
        "region_), fitted Trend and KNeighbors, CheckerBoard; non-trivial = n_north != n_east with both >= 2, or a projection, or >= 2 components; "
        "distinct = SHA-1 of the case")
ASSUMPTIONS = [
    "the expected coordinate vectors are those of verde.grid_coordinates / scatter_points / profile_coordinates for the same arguments (decided by C07 and C13)",
    "values are compared with 1e-12 relative to the analytic field evaluated by the harness at the (projected) coordinates; a transposition, flip or shift changes values by >= 1",
    "profile round trips through projection and inverse are compared with 1e-9 relative",
]


def field(c, e, n):
    e, n = np.asarray(e, dtype="float64"), np.asarray(n, dtype="float64")
    return 1000.0 * (c + 1) + 3.0 * e - 7.0 * n + 0.01 * e * n + 0.001 * e**2


class Analytic(vd.base.BaseGridder):
    """asymmetric analytic gridder: f_c(e, n) = 1000(c+1) + 3e - 7n + 0.01 e n + 0.001 e^2"""

    def __init__(self, ncomp=1, region=None):
        super().__init__()
        self.ncomp = ncomp
        self.region = region
        if region is not None:
            self.region_ = tuple(region)

    def predict(self, coordinates):
        comps = tuple(field(c, coordinates[0], coordinates[1]) for c in range(self.ncomp))
        return comps[0] if self.ncomp == 1 else comps


class NamedExtra(Analytic):
    extra_coords_name = "upward"
    dims = ("latitude", "longitude")


def make_projection(desc):
    if desc is None:
        return None
    if desc["kind"] == "affine":
        ax, bx, ay, by = desc["ax"], desc["bx"], desc["ay"], desc["by"]

        def proj(e, n, inverse=False):
            e, n = np.asarray(e, dtype="float64"), np.asarray(n, dtype="float64")
            if inverse:
                return (e - bx) / ax, (n - by) / ay
            return ax * e + bx, ay * n + by

        return proj
    if desc["kind"] == "rot":
        # rotation + scaling: invertible, mixes easting and northing (a projected grid is not a meshgrid any more)
        ca, sa, k = float(np.cos(desc["angle"])), float(np.sin(desc["angle"])), desc["k"]

        def proj(e, n, inverse=False):
            e, n = np.asarray(e, dtype="float64"), np.asarray(n, dtype="float64")
            if inverse:
                return (ca * e + sa * n) / k, (-sa * e + ca * n) / k
            return k * (ca * e - sa * n), k * (sa * e + ca * n)

        return proj
    c = desc["c"] * max(desc.get("span", 1.0), 1.0)

    def proj(e, n, inverse=False):
        # monotone, non-linear, with a well-conditioned explicit inverse
        e, n = np.asarray(e, dtype="float64"), np.asarray(n, dtype="float64")
        if inverse:
            return c * np.arcsinh(e / c), c * np.arcsinh(n / c)
        return c * np.sinh(e / c), c * np.sinh(n / c)

    return proj


proj_desc = st.one_of(
    st.none(), st.none(),
    st.builds(lambda ax, bx, ay, by: dict(kind="affine", ax=ax, bx=bx, ay=ay, by=by), st.sampled_from([2.0, 0.5, -1.0, 111.0, -3.0]),
              st.sampled_from([0.0, 10.0, -500.0]), st.sampled_from([2.0, 0.25, -1.0, 111.0]), st.sampled_from([0.0, -7.0, 1000.0])),
    st.builds(lambda c: dict(kind="sinh", c=c), st.sampled_from([0.5, 1.0, 3.0])),
    st.builds(lambda a, k: dict(kind="rot", angle=a, k=k), st.sampled_from([0.4363323129985824, 1.0, -2.0]), st.sampled_from([1.0, 0.5, 3.0])))


@st.composite
def grid_cases(draw):
    region = draw(gen.regions(max_exp=4))
    mode = draw(st.sampled_from(["shape", "shape", "spacing", "spacing1", "coords1d", "coords2d"]))
    case = dict(region=region, mode=mode, extra_seq=draw(st.sampled_from(vbuild.SEQS)), ncomp=draw(st.integers(1, 3)), projection=draw(proj_desc), gridder=draw(st.sampled_from(["analytic", "analytic", "analytic_region", "named", "named_instance", "trend", "knn", "checker"])),
                adjust=draw(st.sampled_from(["spacing", "region"])), pixel=draw(st.booleans()), n_extra=draw(st.integers(0, 2)),
                custom_dims=draw(st.booleans()), custom_names=draw(st.booleans()))
    if mode in ("shape", "coords1d", "coords2d"):
        case["shape"] = [draw(st.integers(1, 9)), draw(st.integers(1, 9))]
    elif mode == "spacing":
        case["spacing"] = [draw(gen.spacing_for(region[2], region[3], 12)), draw(gen.spacing_for(region[0], region[1], 12))]
    else:
        big = (region[0], region[1]) if region[1] - region[0] >= region[3] - region[2] else (region[2], region[3])
        case["spacing"] = draw(gen.spacing_for(big[0], big[1], 14))
    if case["gridder"] in ("trend", "knn", "checker"):
        case["ncomp"] = 1
    case["extra"] = [draw(st.one_of(gen.finite(-100, 100), st.just(0.0))) for _ in range(case["n_extra"])]
    case["nonuniform"] = draw(st.booleans())
    case["explicit_region"] = draw(st.booleans())
    case["descending"] = draw(st.sampled_from(["none", "none", "north", "east", "both"]))
    case["coords_form"] = draw(st.sampled_from(COORDS_FORMS))
    case["orders"] = draw(vbuild.orders_strategy())
    return case


def make_gridder(case):
    g = case["gridder"]
    region = case["region"]
    if g == "analytic":
        return Analytic(ncomp=case["ncomp"]), None
    if g == "analytic_region":
        return Analytic(ncomp=case["ncomp"], region=region), region
    if g == "named":
        return NamedExtra(ncomp=case["ncomp"]), None
    if g == "named_instance":
        # the same names set on one object instead of on a subclass
        obj = Analytic(ncomp=case["ncomp"])
        obj.extra_coords_name = "upward"
        obj.dims = ("latitude", "longitude")
        return obj, None
    w, e, s, n = region
    pts_e = np.array([w, e, w, e, (w + e) / 2, w + 0.25 * (e - w)])
    pts_n = np.array([s, s, n, n, (s + n) / 2, s + 0.75 * (n - s)])
    if g == "trend":
        return vd.Trend(1).fit((pts_e, pts_n), 5.0 + 0.003 * pts_e - 0.002 * pts_n), region
    if g == "knn":
        return vd.KNeighbors().fit((pts_e, pts_n), np.arange(6, dtype="float64")), region
    return vd.synthetic.CheckerBoard(amplitude=10.0, region=tuple(region)), region


def grid_kwargs(case):
    kw = {}
    if "shape" in case:
        kw["shape"] = tuple(case["shape"])
    if "spacing" in case:
        kw["spacing"] = tuple(case["spacing"]) if isinstance(case["spacing"], list) else case["spacing"]
        kw["adjust"] = case["adjust"]
    if case["pixel"]:
        kw["pixel_register"] = True
    return kw


def with_span(desc, values):
    if desc is None or desc["kind"] != "sinh":
        return desc
    return dict(desc, span=float(max(abs(v) for v in values)))


COORDS_FORMS = ["ndarray", "ndarray", "list", "dataarray_foreign", "dataarray_same", "index_named", "series", "readonly"]


def coords1d_form(ee1, nn1, form):
    """the 1-D axis vectors of an existing grid in the forms users have them in: plain arrays, lists, the coordinate variables of an
    xarray grid whose dimensions are called something else (or the same), named pandas indexes, Series with a shuffled index"""
    if form == "list":
        return (ee1.tolist(), nn1.tolist())
    if form in ("dataarray_foreign", "dataarray_same"):
        de, dn = ("longitude", "latitude") if form == "dataarray_foreign" else ("easting", "northing")
        existing = xr.Dataset(coords={de: (de, ee1), dn: (dn, nn1)})
        return (existing[de], existing[dn])
    if form == "index_named":
        return (pd.Index(ee1, name="lon"), pd.Index(nn1, name="lat"))
    if form == "series":
        return (pd.Series(ee1, index=np.arange(ee1.size)[::-1] + 3), pd.Series(nn1, index=np.arange(nn1.size) + 7))
    if form == "readonly":
        a, b = ee1.copy(), nn1.copy()
        a.setflags(write=False)
        b.setflags(write=False)
        return (a, b)
    return (ee1, nn1)


def check_grid(case, ctx):
    gridder, default_region = make_gridder(case)
    proj = make_projection(with_span(case["projection"], case["region"]))
    if case["gridder"] in ("knn",) and proj is not None:
        proj = None  # a fitted nearest-neighbour model is only meaningful in its own coordinates
    region = case["region"]
    call = {}
    kw = grid_kwargs(case)
    ncomp = case["ncomp"]
    dims = ("northing", "easting")
    if case["gridder"] in ("named", "named_instance"):
        dims = ("latitude", "longitude")
    if case["custom_dims"]:
        dims = ("yy", "xx")
        call["dims"] = dims
    names = [("scalars",), ("east_component", "north_component"), ("east_component", "north_component", "vertical_component")][ncomp - 1]
    if case["custom_names"]:
        names = tuple("v%d" % k for k in range(ncomp))
        call["data_names"] = names[0] if ncomp == 1 else list(names)
    if proj is not None:
        call["projection"] = proj
    if case["mode"] in ("coords1d", "coords2d"):
        ee1, nn1 = vd.grid_coordinates(region, shape=tuple(case["shape"]), meshgrid=False)
        if case["nonuniform"]:
            ee1 = ee1 + 0.01 * (ee1 - ee1[0]) ** 2 / max(ee1[-1] - ee1[0], 1e-300)
        # explicit coordinates need not be ascending (north-up rasters have a descending northing)
        if case.get("descending") in ("north", "both"):
            nn1 = nn1[::-1].copy()
        if case.get("descending") in ("east", "both"):
            ee1 = ee1[::-1].copy()
        if case["mode"] == "coords1d":
            coords = coords1d_form(ee1, nn1, case.get("coords_form", "ndarray"))
            n_extra = 0
        else:
            m_e, m_n = np.meshgrid(ee1, nn1)
            lay = vbuild.Lay(case.get("orders"))
            m_e, m_n = lay(m_e.ravel(), m_e.shape), lay(m_n.ravel(), m_n.shape)
            coords = (m_e, m_n) + tuple(lay(np.full(m_e.size, v), m_e.shape) for v in case["extra"])
            # the meshgrid (and its extra coordinates) as one stacked array, the form in which longitude_continuity hands a grid's coordinates back
            coords = vbuild.maybe_stack(tuple(np.asarray(c, dtype="float64") for c in coords), vbuild.stack_flag(case))
            n_extra = len(case["extra"])
        call["coordinates"] = coords
        exp_e, exp_n = ee1, nn1
    else:
        use_default = default_region is not None and not case.get("explicit_region")
        if not use_default:
            if default_region is not None:
                # an explicit region different from the gridder's own region_ must win
                w, e, s, n = region
                region = [w + 0.25 * (e - w), e + 0.5 * (e - w), s - 0.125 * (n - s), n - 0.25 * (n - s)]
            call["region"] = tuple(region)
        call.update(kw)
        n_extra = len(case["extra"])
        if n_extra:
            call["extra_coords"] = vbuild.seq(case["extra"] if n_extra > 1 else case["extra"][0], case.get("extra_seq", "list"))
        exp_e, exp_n = vd.grid_coordinates(region, meshgrid=False, **kw)
    with warnings.catch_warnings():
        warnings.simplefilter("ignore")
        ds = gridder.grid(**defaults.method_kwargs("grid", call))
    ctx.check(isinstance(ds, xr.Dataset), "grid must return a Dataset")
    ctx.check(set(ds.data_vars) == set(names), "data variables %r, expected %r", list(ds.data_vars), list(names))
    ctx.check(set(ds.dims) == set(dims), "the Dataset has dimensions %r, expected exactly %r", sorted(ds.dims), sorted(dims))
    ctx.check(all(d in ds.indexes for d in dims), "the dimensions %r are not all index coordinates (indexes: %r)", dims, list(ds.indexes))
    ctx.check(np.array_equal(ds.coords[dims[1]].values, exp_e), "easting coordinate is not that of grid_coordinates for the same arguments: %r vs %r", ds.coords[dims[1]].values[:4], exp_e[:4])
    ctx.check(np.array_equal(ds.coords[dims[0]].values, exp_n), "northing coordinate is not that of grid_coordinates for the same arguments")
    pe, pn = np.meshgrid(exp_e, exp_n)
    if proj is not None:
        pe, pn = proj(pe, pn)
    meta = "Generated by " + repr(gridder)
    ctx.check(ds.attrs.get("metadata") == meta, "Dataset metadata %r, expected %r", ds.attrs.get("metadata"), meta)
    for c, name in enumerate(names):
        var = ds[name]
        ctx.check(var.dims == dims, "variable %s has dims %r, expected %r", name, var.dims, dims)
        ctx.check(var.shape == (exp_n.size, exp_e.size), "variable %s has shape %r, expected (n_north, n_east) = %r", name, var.shape, (exp_n.size, exp_e.size))
        ctx.check(var.attrs.get("metadata") == meta, "variable %s lacks the gridder's description as metadata", name)
        if case["gridder"] in ("analytic", "analytic_region", "named", "named_instance"):
            exp = field(c, pe, pn)
        elif case["gridder"] == "checker":
            # closed form (documented: amplitude * sin(2 pi e / w_east) * cos(2 pi n / w_north), wavelengths default to half the region)
            rw, re_, rs, rn = case["region"]
            exp = 10.0 * np.sin(2 * np.pi / ((re_ - rw) / 2) * pe) * np.cos(2 * np.pi / ((rn - rs) / 2) * pn)
        else:
            exp = np.asarray(gridder.predict((np.ravel(pe), np.ravel(pn)))).reshape(np.shape(pe))
        got = var.values
        scale = np.maximum(np.abs(exp), 1.0)
        bad = ~(np.abs(got - exp) <= 1e-12 * scale)
        if bad.any():
            i, j = np.argwhere(bad)[0]
            raise Violation("%s[%d, %d] = %r but the prediction at (easting[%d], northing[%d]) = (%r, %r) is %r" % (name, i, j, got[i, j], j, i, exp_e[j], exp_n[i], exp[i, j]))
    base = "upward" if case["gridder"] in ("named", "named_instance") else "extra_coord"
    for k in range(n_extra):
        nm = base if k == 0 else "%s_%d" % (base, k)
        ctx.check(nm in ds.coords, "extra coordinate %r missing (coords: %r)", nm, list(ds.coords))
        ctx.check(ds.coords[nm].dims == dims and np.all(ds.coords[nm].values == case["extra"][k]), "extra coordinate %r is not the constant %r on the grid", nm, case["extra"][k])
    if case["mode"] == "coords2d":
        ctx.label("layouts_" + "".join(sorted(set(case.get("orders") or ["C"]))))
    ctx.label(case["gridder"], case["mode"], "proj_" + (case["projection"]["kind"] if proj is not None else "none"), "comps%d" % ncomp, "extra%d" % n_extra,
              "pixel" if case["pixel"] else "gridline")
    if "region" not in call and "coordinates" not in call:
        ctx.label("default_region")
    ctx.nt((exp_n.size != exp_e.size and min(exp_n.size, exp_e.size) >= 2) or proj is not None or ncomp >= 2)


# ---------------------------------------------------------------- profile
@st.composite
def profile_cases(draw):
    p1 = [draw(gen.nice_or_free(-100, 100)), draw(gen.nice_or_free(-100, 100))]
    p2 = [draw(gen.nice_or_free(-100, 100)), draw(gen.nice_or_free(-100, 100))]
    shape_kind = draw(st.sampled_from(["free", "free", "free", "same", "horizontal", "vertical", "tiny"]))
    if shape_kind == "tiny":
        p2 = [p1[0] + draw(st.sampled_from([1e-9, -3e-10, 2.5e-11])), p1[1] + draw(st.sampled_from([1e-9, 0.0, -7e-10]))]
    if shape_kind == "same":
        p2 = list(p1)
    elif shape_kind == "horizontal":
        p2[1] = p1[1]
    elif shape_kind == "vertical":
        p2[0] = p1[0]
    return dict(p1=p1, p2=p2, size=draw(st.integers(1, 30)), extra_seq=draw(st.sampled_from(vbuild.SEQS)), ncomp=draw(st.integers(1, 3)), projection=draw(proj_desc), custom_dims=draw(st.booleans()),
                custom_names=draw(st.booleans()), n_extra=draw(st.integers(0, 2)), extra=[draw(st.one_of(gen.finite(-10, 10), st.just(0.0))) for _ in range(2)])


def check_profile(case, ctx):
    g = Analytic(ncomp=case["ncomp"])
    proj = make_projection(with_span(case["projection"], case["p1"] + case["p2"]))
    call = {}
    ncomp = case["ncomp"]
    dims = ("northing", "easting")
    if case["custom_dims"]:
        dims = ("yy", "xx")
        call["dims"] = dims
    names = [("scalars",), ("east_component", "north_component"), ("east_component", "north_component", "vertical_component")][ncomp - 1]
    if case["custom_names"]:
        names = tuple("v%d" % k for k in range(ncomp))
        call["data_names"] = names[0] if ncomp == 1 else list(names)
    if proj is not None:
        call["projection"] = proj
    extra = case["extra"][:case["n_extra"]]
    if extra:
        call["extra_coords"] = vbuild.seq(extra if len(extra) > 1 else extra[0], case.get("extra_seq", "list"))
    size = case["size"]
    table = g.profile(tuple(case["p1"]), tuple(case["p2"]), size, **defaults.method_kwargs("profile", call))
    ctx.check(isinstance(table, pd.DataFrame) and len(table) == size, "profile must return a DataFrame with 'size' rows")
    exp_cols = [dims[0], dims[1], "distance"] + ["extra_coord" if k == 0 else "extra_coord_%d" % k for k in range(len(extra))] + list(names)
    ctx.check(list(table.columns) == exp_cols, "profile columns %r, expected %r", list(table.columns), exp_cols)
    P1 = np.array(case["p1"], dtype="float64")
    P2 = np.array(case["p2"], dtype="float64")
    if proj is not None:
        P1 = np.array([float(v) for v in proj(P1[0], P1[1])])
        P2 = np.array([float(v) for v in proj(P2[0], P2[1])])
    t = np.arange(size) / (size - 1) if size > 1 else np.zeros(1)
    pe = P1[0] + t * (P2[0] - P1[0])
    pn = P1[1] + t * (P2[1] - P1[1])
    sep = float(np.hypot(P2[0] - P1[0], P2[1] - P1[1]))
    scale = max(np.abs(P1).max(), np.abs(P2).max(), sep, 1e-300)
    ctx.check(np.all(np.abs(table["distance"].values - t * sep) <= 1e-12 * scale), "distances are not t * (projected separation): %r vs %r", table["distance"].values[:4], (t * sep)[:4])
    if proj is not None:
        be, bn = proj(pe, pn, inverse=True)
        oscale = max(np.abs(case["p1"]).max(), np.abs(case["p2"]).max(), 1.0)
        tol_c = 1e-6 * oscale
    else:
        be, bn = pe, pn
        tol_c = 1e-12 * scale
    ctx.check(np.all(np.abs(table[dims[1]].values - be) <= tol_c), "profile eastings are not the (back-projected) evenly spaced points: %r vs %r", table[dims[1]].values[:3], np.asarray(be)[:3])
    ctx.check(np.all(np.abs(table[dims[0]].values - bn) <= tol_c), "profile northings are not the (back-projected) evenly spaced points")
    for c, name in enumerate(names):
        exp = field(c, pe, pn)
        ctx.check(np.all(np.abs(table[name].values - exp) <= 1e-9 * np.maximum(np.abs(exp), 1.0)), "profile data column %s is not the prediction at the projected profile points", name)
    for k, v in enumerate(extra):
        ctx.check(np.all(table["extra_coord" if k == 0 else "extra_coord_%d" % k].values == v), "extra coordinate column not constant")
    ctx.label("proj_" + (case["projection"]["kind"] if proj is not None else "none"), "comps%d" % ncomp, "extra%d" % len(extra))
    ctx.nt(size >= 3 and (proj is not None or ncomp >= 2 or case["p1"] != case["p2"]))


# ---------------------------------------------------------------- scatter
@st.composite
def scatter_cases(draw):
    return dict(region=draw(gen.regions(max_exp=4)), size=draw(st.one_of(st.integers(1, 60), st.sampled_from([300, 1, 2]))), seed=draw(st.one_of(st.integers(0, 2**31 - 1), st.sampled_from([0, 0, 1]))), extra_seq=draw(st.sampled_from(vbuild.SEQS)), ncomp=draw(st.integers(1, 3)),
                projection=draw(proj_desc), gridder=draw(st.sampled_from(["analytic", "analytic_region", "checker"])), custom_dims=draw(st.booleans()),
                n_extra=draw(st.integers(0, 1)))


def check_scatter(case, ctx):
    region = case["region"]
    proj = make_projection(with_span(case["projection"], region))
    if case["gridder"] == "checker":
        g = vd.synthetic.CheckerBoard(amplitude=3.0, region=tuple(region))
        ncomp = 1
    else:
        ncomp = case["ncomp"]
        g = Analytic(ncomp=ncomp, region=region if case["gridder"] == "analytic_region" else None)
    call = dict(size=case["size"], random_state=case["seed"])
    if case["gridder"] == "analytic":
        call["region"] = tuple(region)
    dims = ("northing", "easting")
    if case["custom_dims"]:
        dims = ("yy", "xx")
        call["dims"] = dims
    if proj is not None:
        call["projection"] = proj
    if case["n_extra"]:
        call["extra_coords"] = vbuild.seq(5.5, case.get("extra_seq", "list"))
    a = quiet(g.scatter, **defaults.method_kwargs("scatter", call))
    b = quiet(g.scatter, **defaults.method_kwargs("scatter", call))
    ctx.check(isinstance(a, pd.DataFrame) and len(a) == case["size"], "scatter must return a DataFrame with 'size' rows")
    ctx.check(a.equals(b), "scatter is not reproducible for random_state=%r", case["seed"])
    names = [("scalars",), ("east_component", "north_component"), ("east_component", "north_component", "vertical_component")][ncomp - 1]
    exp_cols = [dims[0], dims[1]] + (["extra_coord"] if case["n_extra"] else []) + list(names)
    ctx.check(list(a.columns) == exp_cols, "scatter columns %r, expected %r (northing, easting, extra coordinates, data)", list(a.columns), exp_cols)
    kw = dict(extra_coords=5.5) if case["n_extra"] else {}
    exp = vd.scatter_points(tuple(region), case["size"], random_state=case["seed"], **kw)
    ctx.check(np.array_equal(a[dims[1]].values, exp[0]) and np.array_equal(a[dims[0]].values, exp[1]), "scatter coordinates are not scatter_points(region, size, random_state)")
    pe, pn = (exp[0], exp[1]) if proj is None else proj(exp[0], exp[1])
    names = [("scalars",), ("east_component", "north_component"), ("east_component", "north_component", "vertical_component")][ncomp - 1]
    for c, name in enumerate(names):
        expv = field(c, pe, pn) if case["gridder"] != "checker" else np.asarray(g.predict((pe, pn)))
        ctx.check(np.all(np.abs(a[name].values - expv) <= 1e-12 * np.maximum(np.abs(expv), 1.0)), "scatter column %s is not the prediction at the (projected) scatter points", name)
    if case["n_extra"]:
        ctx.check("extra_coord" in a.columns, "scatter with one extra coordinate has no 'extra_coord' column (the documented default name): columns %r", list(a.columns))
        ctx.check(np.all(a["extra_coord"].values == 5.5), "extra coordinate column wrong")
    ctx.label(case["gridder"], "proj_" + (case["projection"]["kind"] if proj is not None else "none"))
    ctx.nt(case["size"] >= 3 and (proj is not None or ncomp >= 2 or True))


# ---------------------------------------------------------------- invalid combinations
@st.composite
def invalid_cases(draw):
    return dict(kind=draw(st.sampled_from(["coords_and_shape", "coords_and_spacing", "coords_and_region", "no_region", "names_count", "four_components",
                                           "coords_not_meshgrid", "both_shape_spacing", "neither"])), region=draw(gen.regions(max_exp=3)))


def check_invalid(case, ctx):
    region = tuple(case["region"])
    e1, n1 = vd.grid_coordinates(region, shape=(3, 4), meshgrid=False)
    me, mn = np.meshgrid(e1, n1)
    bad = me.copy()
    bad[1, 1] += 0.5 * (abs(bad[1, 1]) + region[1] - region[0] + 1)
    g = Analytic(ncomp=1)
    calls = {
        "coords_and_shape": lambda: g.grid(coordinates=(e1, n1), shape=(3, 4)),
        "coords_and_spacing": lambda: g.grid(coordinates=(e1, n1), spacing=1.0),
        "coords_and_region": lambda: g.grid(coordinates=(e1, n1), region=region),
        "no_region": lambda: g.grid(shape=(3, 4)),
        "names_count": lambda: g.grid(region=region, shape=(3, 4), data_names=["a", "b"]),
        "four_components": lambda: Analytic(ncomp=4).grid(region=region, shape=(3, 4)),
        "coords_not_meshgrid": lambda: g.grid(coordinates=(bad, mn)),
        "both_shape_spacing": lambda: g.grid(region=region, shape=(3, 4), spacing=1.0),
        "neither": lambda: g.grid(region=region),
    }
    try:
        res = calls[case["kind"]]()
    except Exception:  # noqa: BLE001
        ctx.label(case["kind"])
        ctx.nt(True)
        return
    raise Violation("invalid grid() call (%s) accepted: %r" % (case["kind"], res))


# ---------------------------------------------------------------- large grids, profiles and scatters
@st.composite
def large_cases(draw):
    return dict(region=draw(gen.regions(max_exp=4)), shape=[draw(st.sampled_from([1, 211, 600, 1500])), draw(st.sampled_from([1, 307, 900, 2000]))], ncomp=draw(st.integers(1, 3)),
                projection=draw(proj_desc), size=draw(st.sampled_from([5000, 50000])), seed=draw(st.integers(0, 10**6)), gridder=draw(st.sampled_from(["analytic", "trend", "checker"])))


def check_large(case, ctx):
    region = case["region"]
    if case["gridder"] == "analytic":
        g, ncomp = Analytic(ncomp=case["ncomp"]), case["ncomp"]
    else:
        g, _ = make_gridder(dict(case, gridder=case["gridder"]))
        ncomp = 1
    proj = make_projection(with_span(case["projection"], region))
    kw = {} if proj is None else dict(projection=proj)
    nr, nc = case["shape"]
    if nr * nc > 1_500_000:
        nr = min(nr, 600)
    ds = quiet(g.grid, region=tuple(region), shape=(nr, nc), **kw)
    east, north = np.linspace(region[0], region[1], nc) if nc > 1 else np.array([region[0]]), np.linspace(region[2], region[3], nr) if nr > 1 else np.array([region[2]])
    tol = 8 * np.finfo("float64").eps
    ctx.check(ds.sizes["northing"] == nr and ds.sizes["easting"] == nc, "grid of shape (%d, %d) has sizes %r", nr, nc, dict(ds.sizes))
    ctx.check(np.all(np.abs(ds.easting.values - east) <= tol * max(abs(region[0]), abs(region[1]), 1e-300)) and np.all(np.abs(ds.northing.values - north) <= tol * max(abs(region[2]), abs(region[3]), 1e-300)),
              "coordinates of a %d x %d grid are not evenly spaced over the region", nr, nc)
    pe, pn = np.meshgrid(ds.easting.values, ds.northing.values)
    if proj is not None:
        pe, pn = proj(pe, pn)
    names = [("scalars",), ("east_component", "north_component"), ("east_component", "north_component", "vertical_component")][ncomp - 1]
    for c, name in enumerate(names):
        if case["gridder"] == "analytic":
            exp = field(c, pe, pn)
        elif case["gridder"] == "checker":
            rw, re_, rs, rn = region
            exp = 10.0 * np.sin(2 * np.pi / ((re_ - rw) / 2) * pe) * np.cos(2 * np.pi / ((rn - rs) / 2) * pn)
        else:
            exp = np.asarray(g.predict((pe.ravel(), pn.ravel()))).reshape(pe.shape)
        got = ds[name].values
        bad = ~(np.abs(got - exp) <= 1e-12 * np.maximum(np.abs(exp), 1.0))
        if bad.any():
            i, j = np.argwhere(bad)[0]
            raise Violation("%s[%d, %d] of a %d x %d grid = %r but the prediction at (easting[%d], northing[%d]) is %r" % (name, i, j, nr, nc, float(got[i, j]), j, i, float(exp[i, j])))
    # a long scatter and a long profile
    sc = quiet(g.scatter, region=tuple(region), size=case["size"], random_state=case["seed"] % 1000, **kw)
    se, sn = vd.scatter_points(tuple(region), case["size"], random_state=case["seed"] % 1000)
    ctx.check(len(sc) == case["size"] and np.array_equal(sc["easting"].values, se) and np.array_equal(sc["northing"].values, sn), "scatter of %d points is not scatter_points(region, size, random_state)", case["size"])
    ctx.label(case["gridder"], "%dx%d" % (nr, nc), "proj_" + (case["projection"]["kind"] if proj is not None else "none"))
    ctx.nt(nr * nc >= 1000)


SUBCHECKS = [
    Sub("grid", check_grid, strategy=grid_cases(), quick=300, thorough=2000, shards_quick=4,
        doc="grid(): dims, coordinate vectors, value[i, j] = f(easting[j], northing[i]) at the (projected) node, extra coordinates, names, metadata, default region, explicit coordinates"),
    Sub("profile", check_profile, strategy=profile_cases(), quick=300, thorough=2000, shards_quick=2,
        doc="profile(): evenly spaced points in projected units, distances, back-projected coordinates, data at the projected points, column order"),
    Sub("scatter", check_scatter, strategy=scatter_cases(), quick=300, thorough=1500,
        doc="scatter(): coordinates equal scatter_points(region, size, random_state), reproducible, data at the (projected) points"),
    Sub("invalid", check_invalid, strategy=invalid_cases(), quick=100, thorough=300, shards_thorough=2,
        doc="coordinates together with region/shape/spacing, a missing region, name-count mismatches and non-meshgrid coordinates are rejected"),
    Sub("large", check_large, strategy=large_cases(), quick=10, thorough=60, heavy=True,
        doc="grids of up to 1500 x 2000 nodes (also single row/column, with projections) and scatters of up to 50 000 points against closed forms"),
]
