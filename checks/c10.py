"""C10 - BlockMean outputs means and (0, 1] weights by the documented rule;
variance_to_weights maps variances to weights and neither modifies inputs."""
import math
from fractions import Fraction

import numpy as np
import verde as vd
from hypothesis import strategies as st

from vlib import blocks, build, gen
from vlib.oracles import EPS
from vlib.runner import Sub, Violation

PROPERTY = "C10"
RULE = ("BlockMean: block grid and per-block populations chosen first (single-member blocks, blocks of identical values, crowded blocks), "
        "1-3 different data components on a dyadic value lattice (exact variances) or free floats, weights none/given, uncertainty on/off; "
        "variance_to_weights: arrays of any shape with zeros, values at/around the tolerance, NaNs, several components, read-only flags, "
        "both output dtypes; non-trivial = >= 2 blocks with different positive variances (BlockMean) or >= 2 different positive variances plus "
        "a zero/tiny/NaN entry (variance_to_weights); distinct = SHA-1 of the case")
ASSUMPTIONS = [
    "block variances are computed exactly (rationals) from the float data; cases with a variance within [1e-18, 1e-12] (round-off could cross the 1e-15 tolerance) are skipped and counted",
    "without input weights both the population (ddof=0) and the sample (ddof=1) variance are accepted, consistently for all blocks of a call (DESIGN.md 3.2, D10)",
    "weights are compared with a relative tolerance 64*eps*(1 + max|x|/sqrt(variance)) per block, derived from the cancellation in (x - mean)",
]
TOL = 1e-15


def fr(x):
    return Fraction(float(x))


@st.composite
def mean_cases(draw):
    lay = draw(blocks.layouts(max_blocks=5))
    pts = draw(blocks.interior_points(lay, min_points=2, max_points=30, max_per_block=5))
    if lay["pres"] == "inferred":
        pts = pts + blocks.corner_points(lay)
    n = len(pts)
    ncomp = draw(st.integers(1, 3))
    mode = draw(st.sampled_from(["dyadic", "dyadic", "free"]))
    offset = draw(st.sampled_from([0.0, 0.0, 100.0, -1000.0, 1e5]))
    data = []
    for c in range(ncomp):
        if mode == "dyadic":
            vals = [offset + (c + 1) * 16.0 + k / 64.0 for k in draw(st.lists(st.integers(-640, 640), min_size=n, max_size=n))]
        else:
            vals = [offset + v for v in draw(st.lists(gen.finite(-100, 100), min_size=n, max_size=n))]
        data.append(vals)
    # optionally make some blocks constant-valued (variance exactly 0)
    const_blocks = draw(st.lists(st.integers(0, lay["nb_n"] * lay["nb_e"] - 1), max_size=3))
    for p_idx, p in enumerate(pts):
        b = p[2] * lay["nb_e"] + p[0]
        if b in const_blocks and 0 < p[1] < 1 and 0 < p[3] < 1:
            for c in range(ncomp):
                data[c][p_idx] = offset + (c + 1) * 16.0 + b
    wmode = draw(st.sampled_from(["none", "weights", "uncertainty", "uncertainty_noweights"]))
    weights = None
    int_weights = False
    if wmode in ("weights", "uncertainty"):
        int_weights = draw(st.sampled_from([False, False, True]))  # whole-number weights (1/sigma^2 with sigma = 1, 1/2, 1/3) stored with an integer dtype
        if int_weights:
            weights = [[float(k) for k in draw(st.lists(st.sampled_from([1, 1, 4, 9, 16, 2, 3]), min_size=n, max_size=n))] for _ in range(ncomp)]
        else:
            weights = [draw(st.lists(st.one_of(st.integers(1, 16).map(lambda k: k / 4.0), gen.finite(0.01, 100)), min_size=n, max_size=n))
                       for _ in range(ncomp)]
    return dict(layout=lay, int_weights=int_weights, points=pts, data=data, weights=weights, wmode=wmode, center=draw(st.booleans()),
                extra=draw(st.sampled_from([0, 0, 1, 2])), drop=draw(st.booleans()),
                shape=draw(st.sampled_from(blocks.shape_options(n))), readonly=draw(st.booleans()), orders=draw(build.orders_strategy()), container=draw(st.sampled_from(build.CONTAINERS)))


def expected_weights(variances):
    """variances: list of Fractions or None (NaN) per block -> list of Fractions"""
    pos = [v for v in variances if v is not None and v > Fraction(TOL)]
    if not pos:
        return [Fraction(1)] * len(variances)
    vmin = min(pos)
    return [Fraction(1) if (v is None or v <= Fraction(TOL)) else vmin / v for v in variances]


def check_mean(case, ctx):
    lay = case["layout"]
    shape = case["shape"]
    xy = [blocks.point_xy(lay, p) for p in case["points"]]
    lay_ = build.Lay(case.get("orders"))
    e = lay_([p[0] for p in xy], shape)
    n = lay_([p[1] for p in xy], shape)
    e, n = blocks.pixel_array(lay, e), blocks.pixel_array(lay, n)
    data = tuple(lay_(d, shape) for d in case["data"])
    weights = None if case["weights"] is None else tuple(lay_(w, shape, "int64" if case.get("int_weights") else "float64") for w in case["weights"])
    arrays = [e, n] + list(data) + (list(weights) if weights else [])
    before = [a.copy() for a in arrays]
    if case["readonly"]:
        for a in arrays:
            a.setflags(write=False)
    kw = blocks.verde_kwargs(lay)
    mem = blocks.exact_membership(e.ravel(), n.ravel(), kw, (e, n))
    if mem is None:
        ctx.skip("ambiguous_membership")
    grid, labels = mem
    labels = np.array(labels)
    ncomp = len(data)
    d_arg = data[0] if ncomp == 1 else data
    w_arg = None if weights is None else (weights[0] if ncomp == 1 else weights)
    # extra coordinates (station heights, times): dropped by default, otherwise averaged per block like easting and northing
    extras = [lay_([1000.0 * (j + 1) + 0.5 * k for k in range(len(xy))], shape) for j in range(case.get("extra", 0))]
    bm = vd.BlockMean(center_coordinates=case["center"], uncertainty=case["wmode"].startswith("uncertainty"), drop_coords=case.get("drop", True), **kw)
    # "no weights" in its three forms: left out, None, and one None per data component (what train_test_split hands back without weights)
    none_form = ["omitted", "none", "tuple_of_none"][build.small_hash(case, 6) % 3]
    none_args = {"omitted": (), "none": (None,), "tuple_of_none": ((None,) * ncomp,)}[none_form]
    if case["wmode"] == "uncertainty_noweights":
        try:
            res = bm.filter((e, n), d_arg, *none_args)
        except Exception:  # noqa: BLE001 - must be rejected
            ctx.label("uncertainty_without_weights_rejected", "noweights_" + none_form)
            ctx.nt(True)
            return
        raise Violation("uncertainty=True without weights (weights %s) was accepted and returned %r" % (none_form, res))
    P = lambda a: build.present(a, case.get("container"))  # noqa: E731
    pd_arg = P(d_arg) if not isinstance(d_arg, tuple) else tuple(P(x) for x in d_arg)
    pw_arg = None if w_arg is None else (P(w_arg) if not isinstance(w_arg, tuple) else tuple(P(x) for x in w_arg))
    pcoords = (P(e), P(n)) + tuple(P(x) for x in extras)
    pcoords = build.maybe_stack(pcoords, build.stack_flag(case))
    if build.plain_flag(case):
        # the same object is used on another (mirrored, shorter, shifted and shrunk) data set first: nothing may carry over to the judged call
        try:
            build.quiet(bm.filter, (np.ravel(e)[::-1][:-1] * 0.5 + 3.25, np.ravel(n)[::-1][:-1] * 0.5 - 1.75), np.ravel(data[0])[::-1][:-1] * 1.0, np.ones(data[0].size - 1))
        except Exception:  # noqa: BLE001 - only its side effects matter here
            pass
    res = bm.filter(pcoords, pd_arg, pw_arg) if weights is not None else bm.filter(pcoords, pd_arg, *none_args)
    for a, b in zip(arrays, before):
        ctx.check(np.array_equal(a, b), "BlockMean.filter modified one of its input arrays")
    ctx.check(isinstance(res, tuple) and len(res) == 3, "filter must return (coordinates, mean, weights)")
    out_coords, out_mean, out_w = res
    ctx.check(isinstance(out_coords, tuple), "the block coordinates come back as a %s, documented (and returned in every other configuration) is a tuple of arrays", type(out_coords).__name__)
    if ncomp == 1:
        ctx.check(not isinstance(out_mean, tuple) and not isinstance(out_w, tuple), "single component must come back as arrays")
        out_mean, out_w = (out_mean,), (out_w,)
    else:
        ctx.check(isinstance(out_mean, tuple) and isinstance(out_w, tuple) and len(out_mean) == ncomp and len(out_w) == ncomp,
                  "expected %d components of means and weights", ncomp)
    occupied = sorted(set(labels.tolist()))
    n_out = 2 if case.get("drop", True) else 2 + len(extras)
    ctx.check(len(out_coords) == n_out, "BlockMean(drop_coords=%r) given %d extra coordinate(s) returned %d coordinate arrays", case.get("drop", True), len(extras), len(out_coords))
    for j in range(2, n_out):
        for pos, b in enumerate(occupied):
            m = np.where(labels == b)[0]
            exp_x = float(np.mean(extras[j - 2].ravel()[m]))
            ctx.check(abs(float(np.asarray(out_coords[j])[pos]) - exp_x) <= 1e-9 * abs(exp_x), "extra coordinate %d of block %d is %r, the mean over its members is %r",
                      j - 2, b, float(np.asarray(out_coords[j])[pos]), exp_x)
    for arr in list(out_coords) + list(out_mean) + list(out_w):
        ctx.check(np.asarray(arr).shape == (len(occupied),), "expected one entry per non-empty block (%d), got %s", len(occupied), np.asarray(arr).shape)
    nt = False
    for c in range(ncomp):
        flat = data[c].ravel()
        flatw = None if weights is None else weights[c].ravel()
        means, var0, var1, relerr = [], [], [], []
        for b in occupied:
            m = np.where(labels == b)[0]
            x = [fr(v) for v in flat[m]]
            w = [Fraction(1)] * len(x) if flatw is None else [fr(v) for v in flatw[m]]
            sw = sum(w)
            mean = sum(wi * xi for wi, xi in zip(w, x)) / sw
            means.append(mean)
            ss = sum(wi * (xi - mean) ** 2 for wi, xi in zip(w, x))
            if case["wmode"] == "uncertainty":
                var0.append(1 / sw)
                var1.append(1 / sw)
                relerr.append(64 * EPS)
            else:
                var0.append(ss / sw)
                var1.append(ss / (len(x) - 1) if len(x) > 1 else None)
                v = float(ss / sw)
                relerr.append(64 * EPS * (1 + (max(abs(float(xi)) for xi in x) / math.sqrt(v) if v > 0 else 0)))
        for v in var0:
            if Fraction(1, 10**18) <= v <= Fraction(1, 10**12):
                ctx.skip("variance_near_tolerance")
        # means
        for pos, b in enumerate(occupied):
            got = float(np.asarray(out_mean[c])[pos])
            exp = float(means[pos])
            scale = max(abs(float(v)) for v in flat[np.where(labels == b)[0]])
            if abs(got - exp) > 1e-12 * max(scale, 1e-300):
                raise Violation("block %d component %d: mean %r, expected %r (%s)" % (b, c, got, exp, case["wmode"]))
        # weights: one consistent convention must explain all blocks
        got_w = np.asarray(out_w[c], dtype="float64")
        ctx.check(np.all(got_w > 0) and np.all(got_w <= 1), "weights outside (0, 1]: %r", got_w.tolist())
        ctx.check(np.any(got_w == 1), "no block has weight 1: %r", got_w.tolist())
        conventions = [("ddof0", var0)]
        if weights is None:
            conventions.append(("ddof1", var1))
        why = []
        for name, vs in conventions:
            exp_w = expected_weights(vs)
            pos_v = [v for v in vs if v is not None and v > Fraction(TOL)]
            imin = vs.index(min(pos_v)) if pos_v else 0
            bad = None
            for pos in range(len(occupied)):
                tol = (relerr[pos] + relerr[imin]) * float(exp_w[pos]) + 4 * EPS
                if abs(got_w[pos] - float(exp_w[pos])) > tol:
                    bad = "block %d: weight %r, expected %r under %s" % (occupied[pos], float(got_w[pos]), float(exp_w[pos]), name)
                    break
            if bad is None:
                ctx.label(name)
                break
            why.append(bad)
        else:
            raise Violation("component %d (%s): weights %r match no documented rule: %s" % (c, case["wmode"], got_w.tolist(), "; ".join(why)))
        distinct_pos = {v for v in var0 if v > Fraction(TOL)}
        nt = nt or len(distinct_pos) >= 2
    # coordinates: mean of member coordinates or the centre of that block
    for pos, b in enumerate(occupied):
        m = np.where(labels == b)[0]
        for k, arr in enumerate((e.ravel(), n.ravel())):
            got = float(np.asarray(out_coords[k])[pos])
            exp = blocks.block_centre(grid, b)[k] if case["center"] else float(sum(fr(v) for v in arr[m]) / len(m))
            scale = max(abs(exp), abs(float(grid["W"])), abs(float(grid["S"])), 1e-300)
            # coordinates stored in single precision are averaged in single precision (input dtype kept): tolerance in units of that dtype
            rel = 1e-12 if arr.dtype != np.float32 else 16 * float(np.finfo("float32").eps)
            ctx.check(abs(got - exp) <= rel * scale, "block %d coordinate %d is %r, expected %r", b, k, got, exp)
    pops = [int(np.sum(labels == b)) for b in occupied]
    ctx.label(case["wmode"], "comps%d" % ncomp, lay["pres"], "readonly" if case["readonly"] else "writable")
    if 1 in pops:
        ctx.label("single_member_block")
    if any(v == 0 for v in var0):
        ctx.label("zero_variance_block")
    ctx.nt(nt)


# ------------------------------------------------------------ variance_to_weights
SPECIAL = [0.0, TOL, math.nextafter(TOL, 1), math.nextafter(TOL, 0), 1e-16, 2e-15, float("nan"), 1e-30, 1.0, 2.0, 0.2]


@st.composite
def vtw_cases(draw):
    ncomp = draw(st.integers(1, 3))
    comps, shapes = [], []
    for _ in range(ncomp):
        n = draw(st.integers(1, 16))
        vals = draw(st.lists(st.one_of(st.sampled_from(SPECIAL), gen.log_uniform(-14, 6), st.integers(1, 100).map(float)), min_size=n, max_size=n))
        comps.append(vals)
        shapes.append(draw(st.sampled_from(blocks.shape_options(n))))
    return dict(comps=comps, shapes=shapes, dtype=draw(st.sampled_from(["float64", "float32"])), readonly=draw(st.booleans()),
                as_list=draw(st.booleans()), tol=draw(st.sampled_from([None, None, 1e-15, 1e-3, 0.5])), orders=draw(build.orders_strategy()))


def check_vtw(case, ctx):
    lay_ = build.Lay(case.get("orders"))
    arrs = [lay_(c, s) for c, s in zip(case["comps"], case["shapes"])]
    before = [a.copy() for a in arrs]
    if case["readonly"]:
        for a in arrs:
            a.setflags(write=False)
    if case["as_list"]:
        args = [a.tolist() for a in arrs]
    else:
        args = arrs
    arg = args[0] if len(args) == 1 else tuple(args)
    kw = dict(dtype=case["dtype"])
    tol = TOL
    if case["tol"] is not None:
        kw["tol"] = tol = case["tol"]
    out = vd.variance_to_weights(arg, **kw)
    for a, b in zip(arrs, before):
        ctx.check(np.array_equal(a, b, equal_nan=True), "variance_to_weights modified its input: %r -> %r", b.tolist(), a.tolist())
        ctx.check(a.flags.writeable != case["readonly"], "input flags changed")
    if len(arrs) == 1:
        ctx.check(not isinstance(out, tuple), "a single array must give a single array")
        out = (out,)
    else:
        ctx.check(isinstance(out, tuple) and len(out) == len(arrs), "a tuple of %d arrays must give a tuple of %d arrays", len(arrs), len(arrs))
    nt = False
    for a, w in zip(arrs, out):
        w = np.asarray(w)
        ctx.check(w.shape == a.shape, "shape %s became %s", a.shape, w.shape)
        ctx.check(w.dtype == np.dtype(case["dtype"]), "dtype %s requested, got %s", case["dtype"], w.dtype)
        flat = a.ravel()
        pos = [float(v) for v in flat if (not math.isnan(v)) and v > tol]
        vmin = min(pos) if pos else None
        exp = np.array([1.0 if (math.isnan(v) or not v > tol) else vmin / float(v) for v in flat]).reshape(a.shape)
        if case["dtype"] == "float32":
            ok = np.all(np.abs(w.astype("float64") - exp) <= 2.0 ** -23 * np.maximum(np.abs(exp), 1e-38) * 1.0001)
        else:
            ok = np.all(np.abs(w - exp) <= 4 * EPS * np.abs(exp))
        if not ok:
            raise Violation("variance_to_weights(%r, %r) = %r, expected %r" % (a.tolist(), kw, w.tolist(), exp.tolist()))
        nt = nt or (len(set(pos)) >= 2 and len(pos) < flat.size)
    ctx.label("comps%d" % len(arrs), case["dtype"], "readonly" if case["readonly"] else "writable", "list" if case["as_list"] else "array")
    if any(math.isnan(v) for c in case["comps"] for v in c):
        ctx.label("has_nan")
    ctx.nt(nt)


# ------------------------------------------------------------ large inputs (vectorised oracle)
def check_large(case, ctx):
    """tens of thousands of points: block means and the three weighting rules against numpy.bincount on floor-division labels"""
    e, n, labels, region, spacing = blocks.big_cloud(case)
    keep = (e > region[0]) & (e < region[1]) & (n > region[2]) & (n < region[3])
    e, n, labels = e[keep], n[keep], labels[keep]
    if e.size == 0:
        ctx.skip("no_points_inside")
    rng = np.random.RandomState(case["seed"] + 2)
    data = np.round(rng.uniform(-50, 50, e.size) * 64) / 64 + 7.0 * (labels % 5)
    w = np.round(rng.uniform(0.25, 4, e.size) * 16) / 16
    kw = dict(spacing=spacing) if case["by"] == "spacing" else dict(shape=(case["nb_n"], case["nb_e"]))
    nb = case["nb_n"] * case["nb_e"]
    cnt = np.bincount(labels, minlength=nb)
    occ = np.nonzero(cnt)[0]
    mean = np.bincount(labels, data, nb)[occ] / cnt[occ]
    wsum = np.bincount(labels, w, nb)[occ]
    wmean = np.bincount(labels, w * data, nb)[occ] / wsum
    var = np.bincount(labels, (data - (np.bincount(labels, data, nb) / np.maximum(cnt, 1))[labels]) ** 2, nb)[occ] / cnt[occ]
    wvar = np.bincount(labels, w * (data - (np.bincount(labels, w * data, nb) / np.maximum(np.bincount(labels, w, nb), 1e-300))[labels]) ** 2, nb)[occ] / wsum

    def v2w(v):
        pos = v[v > TOL]
        out = np.ones_like(v)
        if pos.size:
            out[v > TOL] = pos.min() / v[v > TOL]
        return out

    for name, bm, args, exp_m, exp_w in (("unweighted", vd.BlockMean(region=region, **kw), (data,), mean, None),
                                         ("weighted", vd.BlockMean(region=region, **kw), (data, w), wmean, v2w(wvar)),
                                         ("uncertainty", vd.BlockMean(region=region, uncertainty=True, **kw), (data, w), wmean, v2w(1.0 / wsum))):
        _, got_m, got_w = bm.filter((e, n), *args)
        got_m, got_w = np.asarray(got_m), np.asarray(got_w)
        ctx.check(got_m.shape == occ.shape and got_w.shape == occ.shape, "%s: %d means for %d non-empty blocks", name, got_m.size, occ.size)
        bad = np.abs(got_m - exp_m) > 1e-11 * np.maximum(np.abs(exp_m), 1.0)
        if bad.any():
            k = int(np.argmax(bad))
            raise Violation("%s BlockMean over %d points: block %d (%d members) has mean %r, bincount gives %r" % (name, e.size, int(occ[k]), int(cnt[occ][k]), float(got_m[k]), float(exp_m[k])))
        if exp_w is None:
            # either variance convention (DESIGN 3.2, D10): compare with both
            ok = False
            for ddof in (0, 1):
                vv = np.where(cnt[occ] > ddof, var * cnt[occ] / np.maximum(cnt[occ] - ddof, 1), np.nan if ddof else 0.0)
                vv = np.nan_to_num(vv, nan=0.0)
                ok = ok or np.all(np.abs(got_w - v2w(vv)) <= 1e-9)
            ctx.check(ok, "unweighted BlockMean over %d points: weights match min-variance/variance under neither variance convention", e.size)
        else:
            bad = np.abs(got_w - exp_w) > 1e-9 * np.maximum(exp_w, 1e-12)
            if bad.any():
                k = int(np.argmax(bad))
                raise Violation("%s BlockMean over %d points: block %d has weight %r, the documented rule gives %r" % (name, e.size, int(occ[k]), float(got_w[k]), float(exp_w[k])))
        ctx.check(np.all(got_w > 0) and np.all(got_w <= 1) and np.any(got_w == 1), "%s: weights must lie in (0, 1] with a 1 present", name)
    ctx.label("n%d" % e.size, case["by"])
    ctx.nt(occ.size >= 4)


SUBCHECKS = [
    Sub("block_mean", check_mean, strategy=mean_cases(), quick=300, thorough=2000, shards_quick=4,
        doc="BlockMean.filter means, weights (three documented rules), coordinates, input purity (also read-only), rejection of uncertainty without weights"),
    Sub("variance_to_weights", check_vtw, strategy=vtw_cases(), quick=1500, thorough=5000,
        doc="variance_to_weights element-wise vs the formula; NaN/zero/tolerance handling; shape, dtype, tuple-ness; input bytes unchanged incl. read-only"),
    Sub("large", check_large, strategy=blocks.big_cases, quick=6, thorough=40, heavy=True,
        doc="20 000 - 120 000 points, up to 1 600 blocks: means and the three weighting rules against numpy.bincount"),
]
