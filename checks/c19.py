"""C19 - load_surfer returns the file's grid faithfully or refuses it."""
import builtins
import io
import math
import os
import tempfile

import numpy as np
import verde as vd
import verde.io as vio
import xarray as xr
from hypothesis import strategies as st

from vlib import gen
from vlib.runner import Sub, Violation

PROPERTY = "C19"
RULE = ("grammar-generated Surfer ASCII grids (2..7 x 2..7, any finite magnitudes < 1.70141e38, repeated/negative/integral values, any blank "
        "pattern short of all cells, six number formats chosen per token, arbitrary runs of spaces/tabs, blank lines, id line, both dtypes, path and "
        "file-object delivery), single header corruptions and wrapped-row layouts, and raw texts over the numeric alphabet; non-trivial = at least "
        "3 rows and columns with rows != columns and a blank cell, or a fault that must be refused; distinct = SHA-1 of the case")
ASSUMPTIONS = [
    "header layout as load_surfer documents/reads it: id line; 'n_rows n_cols'; 'south north'; 'west east'; 'zmin zmax'; then one grid row per line",
    "the expected value of a cell is Python float(token) (cast to the requested dtype); cells >= 1.70141e38 are blanks",
    "header range corruptions are at least 100x beyond the closeness the function documents (numpy.allclose defaults)",
    "texts whose tokens are not valid Python floats are outside the oracle (only handle hygiene and the shape/header agreement are checked for them)",
]
BLANK = 1.70141e38
FORMATS = ["repr", "%.17g", "%.17e", "%+.17E", "int", "%.6g"]


def fmt(value, how):
    if how == "repr":
        return repr(float(value))
    if how == "int":
        if float(value).is_integer() and abs(value) < 1e15:
            return str(int(value))
        return repr(float(value))
    return how % float(value)


@st.composite
def grids(draw):
    nr, nc = draw(st.integers(2, 7)), draw(st.integers(2, 7))
    kind = draw(st.sampled_from(["small", "int", "wide", "repeat", "tiny"]))
    n = nr * nc
    if kind == "small":
        vals = draw(st.lists(gen.finite(-1000, 1000), min_size=n, max_size=n))
    elif kind == "int":
        vals = [float(v) for v in draw(st.lists(st.integers(-10**6, 10**6), min_size=n, max_size=n))]
    elif kind == "wide":
        vals = draw(st.lists(st.one_of(gen.finite(-1.7e38, 1.7e38), gen.log_uniform(-30, 38), gen.log_uniform(-30, 38).map(lambda v: -v)),
                             min_size=n, max_size=n))
    elif kind == "repeat":
        pool = draw(st.lists(gen.finite(-50, 50), min_size=1, max_size=3))
        vals = [draw(st.sampled_from(pool)) for _ in range(n)]
    else:
        vals = draw(st.lists(gen.log_uniform(-300, -20), min_size=n, max_size=n))
    vals = [v if abs(v) < 1.7e38 else 1.0 for v in vals]
    blanks = draw(st.lists(st.integers(0, n - 1), max_size=n - 1, unique=True)) if draw(st.booleans()) else []
    blank_tokens = [draw(st.sampled_from(["1.70141e38", "1.70141e+038", "1.70141E+38", "1.71e38", "3e38", "1.7014100000000001e+38"])) for _ in blanks]
    fmts = [draw(st.sampled_from(FORMATS)) for _ in range(n)]
    seps = [draw(st.sampled_from([" ", "  ", "\t", " \t ", "      "])) for _ in range(n)]
    region = [draw(gen.nice_or_free(-1e5, 1e5)) for _ in range(2)]
    s, w = region
    nn = s + draw(st.one_of(st.integers(1, 1000).map(float), gen.finite(0.001, 1e4)))
    e = w + draw(st.one_of(st.integers(1, 1000).map(float), gen.finite(0.001, 1e4)))
    return dict(nr=nr, nc=nc, vals=vals, blanks=blanks, blank_tokens=blank_tokens, fmts=fmts, seps=seps, region=[w, e, s, nn],
                gid=draw(st.sampled_from(["DSAA", "DSAA ", "  DSAA", "DSBB", "my grid id", ""])),
                lead=draw(st.sampled_from(["", " ", "\t", "        "])), trail=draw(st.sampled_from(["", " ", "\t  "])),
                blank_lines=draw(st.sampled_from([0, 0, 1, 2])), final_newline=draw(st.booleans()),
                hfmt=draw(st.sampled_from(["repr", "%.17g", "%.17e"])),
                dtype=draw(st.sampled_from(["float64", "float64", "float32"])), delivery=draw(st.sampled_from(["stringio", "path", "fileobj", "pathlib"])))


def tokens_of(case):
    toks = [fmt(v, f) for v, f in zip(case["vals"], case["fmts"])]
    for pos, tok in zip(case["blanks"], case["blank_tokens"]):
        toks[pos] = tok
    return toks


def render(case, header_override=None, body_lines=None):
    toks = tokens_of(case)
    nr, nc = case["nr"], case["nc"]
    parsed = [float(t) for t in toks]
    good = [v for v in parsed if not v >= BLANK]
    w, e, s, n = case["region"]
    hf = case["hfmt"]
    header = dict(gid=case["gid"], counts="%d %d" % (nr, nc), sn="%s %s" % (fmt(s, hf), fmt(n, hf)), we="%s %s" % (fmt(w, hf), fmt(e, hf)),
                  z="%s %s" % (repr(min(good)), repr(max(good))))
    if header_override:
        header.update(header_override)
    if body_lines is None:
        body_lines = []
        for i in range(nr):
            line = case["lead"]
            for j in range(nc):
                line += toks[i * nc + j] + (case["seps"][i * nc + j] if j < nc - 1 else "")
            body_lines.append(line + case["trail"])
    lines = [header["gid"], case["lead"] + header["counts"] + case["trail"], case["lead"] + header["sn"], header["we"] + case["trail"], header["z"]]
    lines += body_lines
    lines += [""] * case["blank_lines"]
    text = "\n".join(lines) + ("\n" if case["final_newline"] or case["blank_lines"] else "")
    return text, parsed


class Tracker:
    """replacement for the name `open` inside verde.io: records every handle the module opens"""

    def __init__(self):
        self.handles = []

    def __call__(self, *a, **k):
        h = builtins.open(*a, **k)
        self.handles.append(h)
        return h


def call_load(text, delivery, dtype):
    """returns (result or None, exception or None, opened handles, caller handle, path)"""
    tracker = Tracker()
    had = "open" in vio.__dict__
    old = vio.__dict__.get("open")
    vio.open = tracker
    tmpdir = None
    caller = None
    path = None
    try:
        if delivery == "stringio":
            arg = caller = io.StringIO(text)
        else:
            tmpdir = tempfile.mkdtemp(prefix="verde_c19_")
            path = os.path.join(tmpdir, "grid.grd")
            with builtins.open(path, "w", newline="") as f:
                f.write(text)
            if delivery == "path":
                arg = path
            elif delivery == "pathlib":
                import pathlib

                arg = pathlib.Path(path)  # "name or path of the grid file"
            else:
                arg = caller = builtins.open(path, "r")
        try:
            res, exc = vd.load_surfer(arg, dtype=dtype), None
        except Exception as e:  # noqa: BLE001 - recorded and judged by the caller
            res, exc = None, e
        caller_closed = None if caller is None else caller.closed
        opened_closed = [h.closed for h in tracker.handles]
        n_opened = len(tracker.handles)
    finally:
        if had:
            vio.open = old
        else:
            del vio.open
        for h in tracker.handles:
            h.close()
        if caller is not None and not isinstance(caller, io.StringIO):
            caller.close()
        if tmpdir is not None:
            try:
                os.unlink(path)
                os.rmdir(tmpdir)
            except OSError:
                pass
    return res, exc, opened_closed, n_opened, caller_closed, path


def hygiene(ctx, delivery, opened_closed, n_opened, caller_closed):
    if delivery in ("path", "pathlib"):
        ctx.check(n_opened == 1, "load_surfer(path) opened %d files", n_opened)
        ctx.check(all(opened_closed), "load_surfer left a file it opened unclosed")
    else:
        ctx.check(n_opened == 0, "load_surfer opened %d files although it was given an open file object", n_opened)
        ctx.check(caller_closed is False, "load_surfer closed the caller's file object")


def compare(ctx, res, case, parsed, region, gid, path, what="file"):
    nr, nc = case["nr"], case["nc"]
    ctx.check(isinstance(res, xr.DataArray), "load_surfer must return a DataArray")
    ctx.check(res.dims == ("northing", "easting"), "dims are %r", res.dims)
    ctx.check(res.shape == (nr, nc), "shape %r, the %s holds %d rows of %d values", res.shape, what, nr, nc)
    ctx.check(res.dtype == np.dtype(case["dtype"]), "dtype %s requested, got %s", case["dtype"], res.dtype)
    ctx.check(res.attrs.get("gridID") == gid.strip(), "gridID %r, file says %r", res.attrs.get("gridID"), gid.strip())
    if path is not None:
        ctx.check("file" in res.attrs and os.fspath(res.attrs["file"]) == path, "attrs['file'] = %r for path %r", res.attrs.get("file"), path)
    else:
        ctx.check("file" not in res.attrs, "attrs['file'] set for a file object")
    w, e, s, n = region
    for name, lo, hi, cnt in (("northing", s, n, nr), ("easting", w, e, nc)):
        c = res.coords[name].values
        ctx.check(c.shape == (cnt,), "%s has %d nodes, expected %d", name, c.size, cnt)
        ctx.check(c[0] == lo and c[-1] == hi, "%s spans [%r, %r], header says [%r, %r]", name, c[0], c[-1], lo, hi)
        exp = lo + np.arange(cnt) * ((hi - lo) / (cnt - 1))
        ctx.check(np.all(np.abs(c - exp) <= 8 * np.finfo(float).eps * max(abs(lo), abs(hi), 1e-300)), "%s is not evenly spaced", name)
    vals = np.asarray(res.values)
    for k, v in enumerate(parsed):
        i, j = divmod(k, nc)
        got = vals[i, j]
        if case["dtype"] == "float32":
            v32 = np.float32(v)
            blank = float(v32) >= BLANK
            ok = np.isnan(got) if blank else (abs(float(got) - float(v32)) <= abs(float(v32)) * 2.0 ** -23)
        else:
            blank = v >= BLANK
            ok = np.isnan(got) if blank else (got == v)
        if not ok:
            raise Violation("cell (row %d, column %d): returned %r, the %s says %r%s" % (i, j, float(got), what, v, " (blank)" if blank else ""))


def check_wellformed(case, ctx):
    text, parsed = render(case)
    res, exc, opened_closed, n_opened, caller_closed, path = call_load(text, case["delivery"], case["dtype"])
    hygiene(ctx, case["delivery"], opened_closed, n_opened, caller_closed)
    if exc is not None:
        raise Violation("well-formed file refused: %s: %s\n%s" % (type(exc).__name__, exc, text[:600]))
    compare(ctx, res, case, parsed, case["region"], case["gid"], path if case["delivery"] in ("path", "pathlib") else None)
    # the other delivery gives the same result
    other = "stringio" if case["delivery"] != "stringio" else "path"
    res2, exc2, oc2, no2, cc2, path2 = call_load(text, other, case["dtype"])
    hygiene(ctx, other, oc2, no2, cc2)
    ctx.check(exc2 is None, "same text refused when delivered as %s: %r", other, exc2)
    compare(ctx, res2, case, parsed, case["region"], case["gid"], path2 if other == "path" else None, what="file (second delivery)")
    ctx.check(np.array_equal(np.asarray(res.values), np.asarray(res2.values), equal_nan=True)
              and all(np.array_equal(res.coords[k].values, res2.coords[k].values) for k in ("northing", "easting"))
              and res.attrs.get("gridID") == res2.attrs.get("gridID"), "path and file-object deliveries give different grids")
    ctx.label(case["dtype"], case["delivery"], "blanks" if case["blanks"] else "no_blanks")
    ctx.nt(case["nr"] >= 3 and case["nc"] >= 3 and case["nr"] != case["nc"] and bool(case["blanks"]))


FAULTS = ["rows+1", "rows-1", "cols+1", "cols-1", "swap_counts", "third_count", "range_shift", "range_scale", "range_swap", "zmin_only", "count_not_integer",
          "region_line_one_number", "region_line_text",
          "wrapped_rect", "wrapped_ragged", "drop_last_value", "drop_last_row", "extra_row"]


@st.composite
def fault_cases(draw):
    case = draw(grids())
    case["fault"] = draw(st.sampled_from(FAULTS))
    case["amount"] = draw(st.sampled_from([1e-3, 0.1, 1.0, 10.0]))
    case["which"] = draw(st.sampled_from(["min", "max", "both"]))
    return case


def check_fault(case, ctx):
    toks = tokens_of(case)
    nr, nc = case["nr"], case["nc"]
    parsed = [float(t) for t in toks]
    good = [v for v in parsed if not v >= BLANK]
    zmin, zmax = min(good), max(good)
    fault = case["fault"]
    override, body = {}, None
    rows = [[toks[i * nc + j] for j in range(nc)] for i in range(nr)]

    def beyond(v):
        return 100 * (1e-8 + 1e-5 * abs(v)) + case["amount"] * max(abs(v), 1e-3)

    if fault == "rows+1":
        override["counts"] = "%d %d" % (nr + 1, nc)
    elif fault == "rows-1":
        override["counts"] = "%d %d" % (nr - 1, nc)
    elif fault == "cols+1":
        override["counts"] = "%d %d" % (nr, nc + 1)
    elif fault == "cols-1":
        override["counts"] = "%d %d" % (nr, nc - 1)
    elif fault == "swap_counts":
        if nr == nc:
            ctx.skip("square_grid_swap_is_no_fault")
        override["counts"] = "%d %d" % (nc, nr)
    elif fault == "third_count":
        override["counts"] = "%d %d 1" % (nr, nc)
    elif fault == "count_not_integer":
        override["counts"] = "%d.5 %d" % (nr, nc)
    elif fault == "region_line_one_number":
        override["sn"] = repr(float(case["region"][2]))
    elif fault == "region_line_text":
        override["we"] = "west east"
    elif fault in ("range_shift", "range_scale"):
        lo, hi = zmin, zmax
        if case["which"] in ("min", "both"):
            lo = zmin - beyond(zmin) if fault == "range_shift" else (zmin * (1 + case["amount"]) if zmin != 0 else -beyond(0.0))
        if case["which"] in ("max", "both"):
            hi = zmax + beyond(zmax) if fault == "range_shift" else (zmax * (1 + case["amount"]) if zmax != 0 else beyond(0.0))
        if np.allclose([zmin, zmax], [lo, hi]) or not (math.isfinite(lo) and math.isfinite(hi)):
            ctx.skip("corruption_within_documented_closeness")
        override["z"] = "%s %s" % (repr(lo), repr(hi))
    elif fault == "range_swap":
        if np.allclose([zmin, zmax], [zmax, zmin]):
            ctx.skip("corruption_within_documented_closeness")
        override["z"] = "%s %s" % (repr(zmax), repr(zmin))
    elif fault == "zmin_only":
        override["z"] = repr(zmin)
        if np.allclose([zmin, zmax], [zmin]):
            ctx.skip("corruption_within_documented_closeness")
    elif fault == "wrapped_rect":
        k = next((d for d in (2, 3) if nc % d == 0), None)
        if k is None:
            ctx.skip("columns_not_divisible")
        body = [" ".join(r[p * (nc // k):(p + 1) * (nc // k)]) for r in rows for p in range(k)]
    elif fault == "wrapped_ragged":
        cut = max(1, nc - 1)
        body = [line for r in rows for line in (" ".join(r[:cut]), " ".join(r[cut:]))]
    elif fault == "drop_last_value":
        body = [" ".join(r) for r in rows]
        body[-1] = " ".join(rows[-1][:-1])
    elif fault == "drop_last_row":
        body = [" ".join(r) for r in rows[:-1]]
    elif fault == "extra_row":
        body = [" ".join(r) for r in rows] + [" ".join(rows[0])]
    text, _ = render(case, override, body)
    res, exc, opened_closed, n_opened, caller_closed, path = call_load(text, case["delivery"], case["dtype"])
    hygiene(ctx, case["delivery"], opened_closed, n_opened, caller_closed)
    if exc is None:
        raise Violation("file whose body disagrees with its header (%s) was loaded instead of refused:\n%s\n-> %r" % (fault, text[:600], res.values))
    ctx.label(fault, case["delivery"], type(exc).__name__)
    ctx.nt(True)


# ---------------------------------------------------------------- raw texts over the numeric alphabet
def strict_parse(text):
    """Strict reading of a Surfer text: returns dict or None when the text is
    not a well-formed file by the documented layout."""
    lines = text.split("\n")
    if len(lines) < 6:
        return None
    try:
        gid = lines[0].strip()
        counts = [int(t) for t in lines[1].split()]
        sn = [float(t) for t in lines[2].split()]
        we = [float(t) for t in lines[3].split()]
        z = [float(t) for t in lines[4].split()]
        body = [[float(t) for t in line.split()] for line in lines[5:] if line.strip()]
    except ValueError:
        return None
    if any(c in text for c in "_#,;"):
        return None
    if len(counts) != 2 or len(sn) != 2 or len(we) != 2 or len(z) != 2:
        return None
    if not body or any(len(r) != len(body[0]) for r in body):
        return None
    flat = [v for r in body for v in r]
    if any(math.isnan(v) or math.isinf(v) for v in flat + sn + we + z):
        return None
    return dict(gid=gid, counts=counts, region=[we[0], we[1], sn[0], sn[1]], z=z, body=body)


ALPHABET = "0123456789+-.eE \t\n"


@st.composite
def raw_cases(draw):
    """A valid small file with a few character-level edits from the numeric alphabet."""
    case = draw(grids())
    case["delivery"] = draw(st.sampled_from(["stringio", "path", "pathlib"]))
    text, _ = render(case)
    edits = draw(st.lists(st.tuples(st.integers(0, max(0, len(text) - 1)), st.sampled_from(["del", "ins", "sub"]), st.sampled_from(ALPHABET)),
                          min_size=1, max_size=4))
    chars = list(text)
    first_nl = text.index("\n") + 1
    for pos, op, ch in edits:
        pos = max(first_nl, min(pos, len(chars) - 1))
        if op == "del" and len(chars) > first_nl + 1:
            del chars[pos]
        elif op == "ins":
            chars.insert(pos, ch)
        else:
            chars[pos] = ch
    return dict(text="".join(chars), dtype=case["dtype"], delivery=case["delivery"])


def judge_raw(text, dtype, delivery, ctx):
    res, exc, opened_closed, n_opened, caller_closed, path = call_load(text, delivery, dtype)
    hygiene(ctx, delivery, opened_closed, n_opened, caller_closed)
    model = strict_parse(text)
    if model is None:
        ctx.label("not_wellformed", "raised" if exc is not None else "returned")
        return False
    nr, nc = len(model["body"]), len(model["body"][0])
    flat = [v for r in model["body"] for v in r]
    if dtype == "float32":
        good = [float(np.float32(v)) for v in flat if not float(np.float32(v)) >= BLANK]
    else:
        good = [v for v in flat if not v >= BLANK]
    consistent = (model["counts"] == [nr, nc] and bool(good) and nr >= 2 and nc >= 2)
    if consistent:
        consistent = bool(np.allclose([min(good), max(good)], model["z"]))
    if exc is not None:
        if consistent:
            raise Violation("text that is a well-formed grid by a strict reading (header agrees with the body) was refused: %s: %s\n%s"
                            % (type(exc).__name__, exc, text[:500]))
        ctx.label("refused", "inconsistent_header")
        return True
    # it returned: the header must agree with the body and the grid must be the file's grid
    ctx.check(model["counts"] == [nr, nc], "loaded a file whose header says shape %r but whose body has %d rows of %d values", model["counts"], nr, nc)
    ctx.check(bool(good), "loaded a grid whose cells are all blank")
    if not np.allclose([min(good), max(good)], model["z"]):
        raise Violation("loaded a file whose header data range %r disagrees with its body range %r" % (model["z"], [min(good), max(good)]))
    fake = dict(nr=nr, nc=nc, dtype=dtype)
    if nr >= 2 and nc >= 2:
        compare(ctx, res, fake, flat, model["region"], model["gid"], path if delivery in ("path", "pathlib") else None, what="text")
    ctx.label("loaded")
    return True


def check_raw(case, ctx):
    judged = judge_raw(case["text"], case["dtype"], case["delivery"], ctx)
    ctx.nt(judged)


# ---------------------------------------------------------------- large files
@st.composite
def large_cases(draw):
    return dict(nr=draw(st.sampled_from([2, 3, 150, 400])), nc=draw(st.sampled_from([2, 5, 260, 700])), seed=draw(st.integers(0, 10**6)), dtype=draw(st.sampled_from(["float64", "float32"])),
                blanks=draw(st.sampled_from([0, 0, 25])), fault=draw(st.sampled_from([None, None, "drop_value", "extra_value", "zmax"])), wide=draw(st.booleans()))


def check_large(case, ctx):
    """grids with up to 280 000 values: loaded faithfully; one value missing / one too many / a wrong header maximum is refused"""
    import io as _io

    rng = np.random.RandomState(case["seed"])  # a pure function of the generated case
    nr, nc = case["nr"], case["nc"]
    vals = np.round(rng.uniform(-500, 500, (nr, nc)) * 8) / 8  # dyadic: exactly representable as float32 and as printed decimals
    if case["wide"]:
        vals[rng.randint(0, nr), rng.randint(0, nc)] = 262144.0  # a wide dynamic range between the extremes
    blank = np.zeros((nr, nc), dtype=bool)
    for _ in range(case["blanks"]):
        blank[rng.randint(0, nr), rng.randint(0, nc)] = True
    if blank.all():
        blank[0, 0] = False
    zmin, zmax = float(vals[~blank].min()), float(vals[~blank].max())
    w, e, s, n = 1000.0, 1000.0 + 5.0 * max(nc - 1, 1), -200.0, -200.0 + 2.5 * max(nr - 1, 1)
    rows = [" ".join("1.70141e38" if blank[i, j] else repr(float(vals[i, j])) for j in range(nc)) for i in range(nr)]
    fault = case["fault"]
    if fault == "drop_value" and nr * nc > 1:
        i = rng.randint(0, nr)
        rows[i] = " ".join(rows[i].split()[:-1])
    elif fault == "extra_value":
        i = rng.randint(0, nr)
        rows[i] = rows[i] + " 7.5"
    if fault == "zmax":
        zmax = zmax + max(1.0, 0.01 * abs(zmax))
    text = "DSAA\n%d %d\n%r %r\n%r %r\n%r %r\n%s\n" % (nr, nc, s, n, w, e, zmin, zmax, "\n".join(rows))  # the header layout load_surfer reads (ASSUMPTIONS)
    try:
        grid = vd.load_surfer(_io.StringIO(text), dtype=case["dtype"])
    except Exception as exc:  # noqa: BLE001
        if fault is None or (fault == "drop_value" and nr * nc == 1):
            raise Violation("a well-formed %d x %d file was refused: %s: %s" % (nr, nc, type(exc).__name__, str(exc)[:200]))
        ctx.label("refused_" + fault)
        ctx.nt(True)
        return
    if fault is not None and not (fault == "drop_value" and nr * nc == 1):
        raise Violation("a %d x %d file with the fault %r was loaded instead of refused" % (nr, nc, fault))
    got = np.asarray(grid.values)
    ctx.check(got.shape == (nr, nc) and got.dtype == np.dtype(case["dtype"]), "loaded shape/dtype %s %s, file has %d rows x %d columns, dtype %s asked", got.shape, got.dtype, nr, nc, case["dtype"])
    ctx.check(np.array_equal(np.isnan(got), blank), "blanked cells are not exactly the NaNs of the loaded grid")
    ctx.check(np.array_equal(got[~blank], vals[~blank].astype(case["dtype"])), "loaded values differ from the file's values")
    ctx.check(np.allclose(grid.easting.values, np.linspace(w, e, nc), rtol=0, atol=1e-9) and np.allclose(grid.northing.values, np.linspace(s, n, nr), rtol=0, atol=1e-9),
              "coordinates are not evenly spaced over the header's ranges")
    ctx.label("%dx%d" % (nr, nc), case["dtype"], "blanks" if case["blanks"] else "no_blanks")
    ctx.nt(nr * nc >= 1000)


SUBCHECKS = [
    Sub("wellformed", check_wellformed, strategy=grids(), quick=400, thorough=2500, shards_quick=2,
        doc="grammar-generated files: shape, coordinates, values in file order, blanks, attributes, dtype, path vs file object, handle hygiene"),
    Sub("faults", check_fault, strategy=fault_cases(), quick=400, thorough=2500, shards_quick=2,
        doc="single header corruptions and wrapped/ragged/truncated bodies must be refused; handles closed on the error path"),
    Sub("edited_texts", check_raw, strategy=raw_cases(), quick=500, thorough=3000, shards_quick=2,
        doc="valid files with 1-4 character edits over the numeric alphabet: if load_surfer returns, the grid must equal a strict reading of the text and the header must agree"),
    Sub("large", check_large, strategy=large_cases(), quick=10, thorough=60, heavy=True,
        doc="files with up to 280 000 values (blanks, wide dynamic range): faithful load; one value missing/extra or a wrong header maximum is refused"),
]


# ---------------------------------------------------------------- byte-level fuzzing (atheris)
def _seed_corpus(corpus_dir):
    """the three sample files of the repository's test_io.py, encoded in the target's byte alphabet"""
    # byte strings that the target's data-provider layer decodes into small valid grids (2x2 .. 3x4, plain and
    # exponent formats, one blank), in the spirit of the three sample files of the repository's test_io.py
    samples = [
        bytes([0, 0] + [0, 1, 1, 1] * 4 + [0] * 12),
        bytes([1, 2] + [4, 1, 2, 1, 1] * 12 + [0] * 16),
        bytes([0, 1] + [144, 3, 5, 9, 1, 1] * 6 + [0] * 12),
        bytes([2, 2] + [21, 7, 7, 3, 1, 0] * 16 + [0] * 20),
    ]
    for k, blob in enumerate(samples):
        with open(os.path.join(corpus_dir, "seed%d" % k), "wb") as f:
            f.write(blob)


def run_atheris(tier, seed, shard, nshards, rec):
    import json
    import shutil
    import subprocess
    import sys

    from vlib import env

    runs = {"quick": 4000, "thorough": 300000}[tier]
    outdir = tempfile.mkdtemp(prefix="verde_c19_fuzz_")
    try:
        corpus = os.path.join(outdir, "corpus")
        os.makedirs(corpus)
        if shard % 2 == 1:
            _seed_corpus(corpus)  # odd shards start from the repository's samples, even shards from an empty corpus
        dtype = "float64" if shard % 4 < 2 else "float32"
        cmd = [sys.executable, os.path.join(env.VERIF, "fuzz", "surfer_fuzz.py"), outdir, dtype, corpus,
               "-runs=%d" % runs, "-seed=%d" % (seed % (2**31 - 1) + 1), "-max_len=200", "-print_final_stats=0", "-verbosity=0"]
        proc = subprocess.run(cmd, stdout=subprocess.PIPE, stderr=subprocess.STDOUT, text=True, timeout=3000, cwd=outdir)
        stats_path = os.path.join(outdir, "stats.json")
        if os.path.exists(stats_path):
            stats = json.load(open(stats_path))
            rec.evaluations += stats["executions"]
            for k, v in stats["labels"].items():
                rec.labels[k] += v
            rec.labels["corpus_seeded" if shard % 2 else "corpus_empty"] += 1
            rec.hashes.update(stats["loaded_hashes"])
            rec.samples.extend(stats["samples"][: 3 - len(rec.samples)])
        vio = os.path.join(outdir, "violation.json")
        if os.path.exists(vio):
            v = json.load(open(vio))
            return ("violation", v["case"], v["message"])
        if proc.returncode != 0:
            return ("harness", None, "atheris run failed (exit %d): %s" % (proc.returncode, proc.stdout[-1500:]))
        return None
    finally:
        shutil.rmtree(outdir, ignore_errors=True)


SUBCHECKS.append(
    Sub("atheris_bytes", check_raw, custom=run_atheris, shards_quick=4, shards_thorough=16,
        doc="coverage-guided byte-level fuzzing (atheris/libFuzzer) of load_surfer with the strict-reading oracle inside the target; "
            "half of the shards start from an empty corpus, half from the repository's three sample files; both dtypes; "
            "counted as non-trivial only when the text was loaded and compared"))
