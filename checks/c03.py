"""C03 - predictions evaluate the documented analytic models with the fitted parameters."""
import math

import mpmath
import numpy as np
import verde as vd
from hypothesis import strategies as st
from scipy.interpolate import CloughTocher2DInterpolator, LinearNDInterpolator

from vlib import blocks, gen, kernels
from vlib import build as vbuild
from vlib.oracles import EPS
from vlib.runner import Sub, Violation

PROPERTY = "C03"
RULE = ("observation/force pairs at prescribed distances (0, 1e-300, 1e-12 ... 1-2^-53, 1, 1+2^-52, e rounded down/up, 10, 1e8, log-uniform in "
        "between, (1 +- 1e-6){1, e}), any direction, force positions with offsets, several observations x several forces; mindist >= 0; Poisson in "
        "[-1, 1]; arbitrary force/coefficient vectors; Trend degrees 0..6; CheckerBoard parameters; query arrays of any shape; SciPy differential on "
        "general-position clouds; non-trivial = the case touches >= 2 distance regimes among {0, (0,1), 1, (1,e), e, >e} or has >= 2 forces "
        "(kernels), degree >= 1 (trend), any (checkerboard, differential, translation); distinct = SHA-1 of the case")
ASSUMPTIONS = [
    "kernel values are judged by mpmath (50 digits) on the float64 coordinate differences the code itself forms; tolerances: spline "
    "16 eps (rho + rho^2 (1 + |ln rho|)), vector 16 eps (2 + |(3 - nu) ln rho|), monomials 2 (i + j + 2) eps |term|, checkerboard a eps (4 + 2|arg_e| + 2|arg_n|)",
    "vector spline: pairs closer than 1e-150 count as coincident (their squared distance underflows) and get a positive mindist",
    "engine='numba' cannot be exercised (numba absent)",
]
E_LO = math.nextafter(math.e, 0)
E_HI = math.nextafter(math.e, 10)
DIST_TABLE = [0.0, 1e-300, 1e-200, 1e-12, 1e-6, 0.5, 1 - 2.0**-53, 1.0, 1 + 2.0**-52, 2.0, E_LO, math.e, E_HI, 10.0, 1e4, 1e8,
              1 - 1e-6, 1 + 1e-6, math.e * (1 - 1e-6), math.e * (1 + 1e-6)]


def regime(rho):
    if rho == 0:
        return "zero"
    if rho < 1:
        return "(0,1)"
    if rho == 1:
        return "one"
    if rho < E_LO:
        return "(1,e)"
    if rho <= E_HI:
        return "e"
    return ">e"


@st.composite
def pair_sets(draw, vector=False):
    nf = draw(st.integers(1, 5))
    base = draw(st.sampled_from([0.0, 0.0, 5.0, -1000.0, 123456.0]))
    forces = [[base + draw(st.integers(-20, 20)), base + draw(st.integers(-20, 20))] for _ in range(nf)]
    # forces at exactly the same place (re-occupied stations, crossing survey lines): each one still contributes its own term to the sum
    for _ in range(draw(st.sampled_from([0, 0, 0, 1, 2]))):
        forces.insert(draw(st.integers(0, len(forces))), list(draw(st.sampled_from(forces))))
    nobs = draw(st.integers(1, 6))
    obs = []
    for _ in range(nobs):
        f = draw(st.sampled_from(forces))
        r = draw(st.one_of(st.sampled_from(DIST_TABLE), gen.log_uniform(-12, 8)))
        direction = draw(st.sampled_from(["+x", "-x", "+y", "-y", "free"]))
        if direction == "free":
            t = draw(gen.finite(0, 2 * math.pi))
            obs.append([f[0] + r * math.cos(t), f[1] + r * math.sin(t)])
        else:
            sx = {"+x": 1, "-x": -1}.get(direction, 0)
            sy = {"+y": 1, "-y": -1}.get(direction, 0)
            obs.append([f[0] + sx * r, f[1] + sy * r])
    mindist = draw(st.sampled_from([0.0, 0.0, 1e-3, 0.5, 1.0, 100.0, 1e4]))
    if vector:
        close = any(math.hypot(o[0] - f[0], o[1] - f[1]) < 1e-150 for o in obs for f in forces)
        if close and mindist == 0.0:
            mindist = draw(st.sampled_from([1e-3, 1.0, 10e3]))
    return dict(forces=forces, obs=obs, mindist=mindist, oshape=draw(st.sampled_from(blocks.shape_options(nobs))),
                order=draw(st.sampled_from(["C", "F"])))


def arr(points, k, shape=None, order="C"):
    a = np.array([p[k] for p in points], dtype="float64")
    if shape is not None:
        a = a.reshape(shape)
        if order == "F" and a.ndim == 2:
            a = np.asfortranarray(a)
    return a


def spline_obj(mindist):
    import warnings

    with warnings.catch_warnings():
        warnings.simplefilter("ignore")
        return vd.Spline() if mindist == 0.0 else vd.Spline(mindist=mindist)


# ---------------------------------------------------------------- spline kernel
@st.composite
def spline_cases(draw):
    case = draw(pair_sets())
    nf = len(case["forces"])
    case["force_values"] = draw(st.lists(st.one_of(gen.finite(-1e3, 1e3), st.integers(-5, 5).map(float)), min_size=nf, max_size=nf))
    case["force_container"] = draw(st.sampled_from(vbuild.CONTAINERS))
    return case


def check_spline(case, ctx):
    forces, obs, mindist = case["forces"], case["obs"], case["mindist"]
    oe, on = arr(obs, 0, case["oshape"], case["order"]), arr(obs, 1, case["oshape"], case["order"])
    if vbuild.plain_flag(case):
        oe, on = oe.astype(">f8"), on.astype(">f8")  # observation points as read from a big-endian file (same values, non-native byte order)
    fe, fn = arr(forces, 0), arr(forces, 1)
    sp = spline_obj(mindist)
    jac = np.asarray(sp.jacobian((oe, on), (fe, fn)))
    ctx.check(jac.shape == (len(obs), len(forces)), "jacobian shape %s, expected (%d, %d)", jac.shape, len(obs), len(forces))
    ctx.check(np.all(np.isfinite(jac)), "jacobian is not finite: %r", jac.tolist())
    regimes = set()
    ref = [[None] * len(forces) for _ in obs]
    tols = [[None] * len(forces) for _ in obs]
    for i, o in enumerate(obs):
        for j, f in enumerate(forces):
            dx, dy = float(np.float64(o[0]) - np.float64(f[0])), float(np.float64(o[1]) - np.float64(f[1]))
            g, rho = kernels.spline_green_mp(dx, dy, mindist)
            rho_f = float(rho)
            tol = 16 * EPS * (rho_f + rho_f**2 * (1 + abs(math.log(rho_f)) if rho_f > 0 else 0.0)) + 1e-300
            ref[i][j], tols[i][j] = g, tol
            regimes.add(regime(rho_f))
            if abs(mpmath.mpf(float(jac[i, j])) - g) > tol:
                raise Violation("spline kernel for dx=%r dy=%r mindist=%r (rho=%r): got %r, r^2(ln r - 1) = %s (tol %.3g)" % (
                    dx, dy, mindist, rho_f, float(jac[i, j]), mpmath.nstr(g, 20), tol))
    # predict with externally set parameters = sum_j f_j g_ij = jacobian @ forces
    fv = np.array(case["force_values"], dtype="float64")
    sp.force_ = fv
    sp.force_coords_ = (vbuild.present(fe, case.get("force_container")), vbuild.present(fn, case.get("force_container")))
    pred = np.asarray(sp.predict((oe, on)))
    ctx.check(pred.shape == tuple(case["oshape"]), "prediction shape %s for query shape %s", pred.shape, tuple(case["oshape"]))
    flat = pred.ravel(order="C")
    via_jac = jac @ fv
    for i in range(len(obs)):
        exact = sum(mpmath.mpf(float(fv[j])) * ref[i][j] for j in range(len(forces)))
        tol = sum(abs(float(fv[j])) * tols[i][j] for j in range(len(forces))) + 4 * len(forces) * EPS * float(sum(abs(mpmath.mpf(float(fv[j])) * ref[i][j]) for j in range(len(forces)))) + 1e-300
        if abs(mpmath.mpf(float(flat[i])) - exact) > tol:
            raise Violation("Spline.predict at %r with forces %r at %r: got %r, sum of force x g(distance) = %s" % (obs[i], fv.tolist(), forces, float(flat[i]), mpmath.nstr(exact, 20)))
        ctx.check(abs(float(flat[i]) - float(via_jac[i])) <= 2 * tol, "predict differs from jacobian @ forces at observation %d: %r vs %r", i, float(flat[i]), float(via_jac[i]))
    for r in regimes:
        ctx.label("rho_" + r)
    ctx.label("mindist>0" if mindist > 0 else "mindist=0", "qdim%d" % len(case["oshape"]))
    ctx.nt(len(regimes) >= 2 or len(forces) >= 2)


# ---------------------------------------------------------------- vector kernel
@st.composite
def vector_cases(draw):
    case = draw(pair_sets(vector=True))
    nf = len(case["forces"])
    case["poisson"] = draw(st.one_of(st.sampled_from([-1.0, 0.0, 0.5, 1.0, 0.25]), gen.finite(-1, 1)))
    case["force_values"] = draw(st.lists(st.one_of(gen.finite(-1e3, 1e3), st.integers(-5, 5).map(float)), min_size=2 * nf, max_size=2 * nf))
    case["force_container"] = draw(st.sampled_from(vbuild.CONTAINERS))
    return case


def check_vector(case, ctx):
    forces, obs, mindist, nu = case["forces"], case["obs"], case["mindist"], case["poisson"]
    nobs, nf = len(obs), len(forces)
    oe, on = arr(obs, 0, case["oshape"], case["order"]), arr(obs, 1, case["oshape"], case["order"])
    if vbuild.plain_flag(case):
        oe, on = oe.astype(">f8"), on.astype(">f8")  # observation points as read from a big-endian file (same values, non-native byte order)
    fe, fn = arr(forces, 0), arr(forces, 1)
    vs = vd.VectorSpline2D(poisson=nu, mindist=mindist, force_coords=(vbuild.present(fe, case.get("force_container")), vbuild.present(fn, case.get("force_container"))))
    jac = np.asarray(vs.jacobian((oe, on), (fe, fn)))
    ctx.check(jac.shape == (2 * nobs, 2 * nf), "jacobian shape %s, expected (%d, %d)", jac.shape, 2 * nobs, 2 * nf)
    ctx.check(np.all(np.isfinite(jac)), "jacobian is not finite (mindist=%r): %r", mindist, jac.tolist())
    regimes = set()
    refs = {}
    for i, o in enumerate(obs):
        for j, f in enumerate(forces):
            dx, dy = float(np.float64(o[0]) - np.float64(f[0])), float(np.float64(o[1]) - np.float64(f[1]))
            ee, nn, ne, rho = kernels.vector_greens_mp(dx, dy, mindist, nu)
            rho_f = float(rho)
            tol = 16 * EPS * (2 + abs((3 - nu) * math.log(rho_f)))
            regimes.add(regime(rho_f))
            refs[i, j] = (ee, nn, ne, tol)
            for name, got, exp in (("ee (east rows, east-force columns)", jac[i, j], ee), ("nn (north rows, north-force columns)", jac[nobs + i, nf + j], nn),
                                   ("ne (east rows, north-force columns)", jac[i, nf + j], ne), ("ne (north rows, east-force columns)", jac[nobs + i, j], ne)):
                if abs(mpmath.mpf(float(got)) - exp) > tol:
                    raise Violation("elastic kernel block %s for dx=%r dy=%r mindist=%r poisson=%r: got %r, expected %s" % (name, dx, dy, mindist, nu, float(got), mpmath.nstr(exp, 20)))
    fv = np.array(case["force_values"], dtype="float64")
    vs.force_ = fv
    pred = vs.predict((oe, on))
    ctx.check(isinstance(pred, tuple) and len(pred) == 2, "VectorSpline2D.predict must return (east, north)")
    via = jac @ fv
    for comp in range(2):
        p = np.asarray(pred[comp])
        ctx.check(p.shape == tuple(case["oshape"]), "component %d has shape %s for query shape %s", comp, p.shape, tuple(case["oshape"]))
        flat = p.ravel(order="C")
        for i in range(nobs):
            exact = mpmath.mpf(0)
            tol = 1e-300
            mag = mpmath.mpf(0)
            for j in range(nf):
                ee, nn, ne, t = refs[i, j]
                fe_j, fn_j = mpmath.mpf(float(fv[j])), mpmath.mpf(float(fv[nf + j]))
                term = (ee * fe_j + ne * fn_j) if comp == 0 else (ne * fe_j + nn * fn_j)
                exact += term
                mag += abs(ee * fe_j) + abs(ne * fn_j) + abs(nn * fn_j) + abs(ne * fe_j)
                tol += t * (abs(float(fv[j])) + abs(float(fv[nf + j])))
            tol += 8 * nf * EPS * float(mag)
            if abs(mpmath.mpf(float(flat[i])) - exact) > tol:
                raise Violation("VectorSpline2D.predict component %d at %r: got %r, coupled Green's functions give %s" % (comp, obs[i], float(flat[i]), mpmath.nstr(exact, 20)))
            ctx.check(abs(float(flat[i]) - float(via[comp * nobs + i])) <= 2 * tol, "predict differs from jacobian @ forces (component %d, observation %d)", comp, i)
    for r in regimes:
        ctx.label("rho_" + r)
    ctx.label("mindist>0" if mindist > 0 else "mindist=0", "poisson=-1" if nu == -1 else "poisson_other")
    ctx.nt(len(regimes) >= 2 or nf >= 2)


# ---------------------------------------------------------------- translation invariance (bitwise on dyadic coordinates)
@st.composite
def translation_cases(draw):
    nf, nobs = draw(st.integers(1, 5)), draw(st.integers(1, 6))
    dy = st.integers(-2048, 2048).map(lambda k: k / 16.0)
    return dict(forces=[[draw(dy), draw(dy)] for _ in range(nf)], obs=[[draw(dy), draw(dy)] for _ in range(nobs)],
                shift=[draw(st.integers(-2**20, 2**20)) / 8.0, draw(st.integers(-2**20, 2**20)) / 8.0],
                mindist=draw(st.sampled_from([0.0, 0.5, 10.0])), poisson=draw(st.sampled_from([-1.0, 0.5, 0.3])))


def check_translation(case, ctx):
    f, o, s = np.array(case["forces"]), np.array(case["obs"]), np.array(case["shift"])
    sp = spline_obj(case["mindist"])
    a = sp.jacobian((o[:, 0], o[:, 1]), (f[:, 0], f[:, 1]))
    b = sp.jacobian((o[:, 0] + s[0], o[:, 1] + s[1]), (f[:, 0] + s[0], f[:, 1] + s[1]))
    ctx.check(np.array_equal(a, b), "Spline.jacobian changes under a common (exactly representable) translation of data and forces")
    md = case["mindist"] or 1.0
    vs = vd.VectorSpline2D(poisson=case["poisson"], mindist=md)
    a = vs.jacobian((o[:, 0], o[:, 1]), (f[:, 0], f[:, 1]))
    b = vs.jacobian((o[:, 0] + s[0], o[:, 1] + s[1]), (f[:, 0] + s[0], f[:, 1] + s[1]))
    ctx.check(np.array_equal(a, b), "VectorSpline2D.jacobian changes under a common translation")
    ctx.nt(True)


# ---------------------------------------------------------------- trend
@st.composite
def trend_cases(draw):
    deg = draw(st.integers(0, 6))
    n = draw(st.integers(1, 12))
    scale = draw(st.sampled_from([1.0, 1.0, 0.01, 100.0, 1e4]))
    pts = [[scale * draw(st.one_of(st.integers(-10, 10).map(float), gen.finite(-10, 10))), scale * draw(st.one_of(st.integers(-10, 10).map(float), gen.finite(-10, 10)))] for _ in range(n)]
    ncoef = (deg + 1) * (deg + 2) // 2
    coefs = draw(st.lists(st.one_of(st.integers(-9, 9).map(float), gen.finite(-100, 100)), min_size=ncoef, max_size=ncoef))
    return dict(degree=deg, points=pts, coefs=coefs, shape=draw(st.sampled_from(blocks.shape_options(n) + ([[]] if n == 1 else []))), order=draw(st.sampled_from(["C", "F"])))


def check_trend(case, ctx):
    deg, pts = case["degree"], case["points"]
    e, n = arr(pts, 0, case["shape"], case["order"]), arr(pts, 1, case["shape"], case["order"])
    tr = vd.Trend(degree=deg)
    combos = kernels.monomials(deg)
    ctx.check(len(combos) == (deg + 1) * (deg + 2) // 2, "HARNESS: monomial count")
    documented = {1: [(0, 0), (1, 0), (0, 1)], 2: [(0, 0), (1, 0), (0, 1), (2, 0), (1, 1), (0, 2)],
                  3: [(0, 0), (1, 0), (0, 1), (2, 0), (1, 1), (0, 2), (3, 0), (2, 1), (1, 2), (0, 3)]}
    if deg in documented:
        ctx.check(combos == documented[deg], "HARNESS: harness order differs from the docstring")
    jac = np.asarray(tr.jacobian((e, n)))
    ctx.check(jac.shape == (len(pts), len(combos)), "Trend(%d).jacobian shape %s, expected (%d, %d)", deg, jac.shape, len(pts), len(combos))
    for k, p in enumerate(pts):
        x, y = mpmath.mpf(p[0]), mpmath.mpf(p[1])
        for c, (i, j) in enumerate(combos):
            term = x**i * y**j
            tol = 2 * (i + j + 2) * EPS * float(abs(term)) + 1e-300
            if abs(mpmath.mpf(float(jac[k, c])) - term) > tol:
                raise Violation("Trend(%d).jacobian column %d at (%r, %r): got %r, e^%d n^%d = %s" % (deg, c, p[0], p[1], float(jac[k, c]), i, j, mpmath.nstr(term, 20)))
    coef = np.array(case["coefs"], dtype="float64")
    tr.coef_ = coef
    tr.region_ = (0, 1, 0, 1)
    pred = np.asarray(tr.predict((e, n)))
    ctx.check(pred.shape == tuple(case["shape"]), "prediction shape %s for query shape %s", pred.shape, tuple(case["shape"]))
    flat = pred.ravel(order="C")
    for k, p in enumerate(pts):
        x, y = mpmath.mpf(p[0]), mpmath.mpf(p[1])
        terms = [mpmath.mpf(float(coef[c])) * x**i * y**j for c, (i, j) in enumerate(combos)]
        exact = sum(terms)
        tol = 8 * (deg + 3) * EPS * float(sum(abs(t) for t in terms)) + 1e-300
        if abs(mpmath.mpf(float(flat[k])) - exact) > tol:
            raise Violation("Trend(%d).predict at (%r, %r) with coef %r: got %r, polynomial over the documented monomial order gives %s" % (
                deg, p[0], p[1], coef.tolist(), float(flat[k]), mpmath.nstr(exact, 20)))
    ctx.label("deg%d" % deg, "qdim%d" % len(case["shape"]))
    ctx.nt(deg >= 1)


# ---------------------------------------------------------------- checkerboard
@st.composite
def checker_cases(draw):
    region = draw(st.one_of(gen.regions(max_exp=4), gen.regions(max_exp=4), st.just([0.0, 5000.0, -5000.0, 0.0])))  # the last one is the documented default region
    n = draw(st.integers(1, 12))
    pts = [[draw(gen.finite(region[0] - 10, region[1] + 10)), draw(gen.finite(region[2] - 10, region[3] + 10))] for _ in range(n)]
    return dict(region=region, amplitude=draw(st.one_of(st.none(), gen.finite(-1e3, 1e3), st.integers(1, 100).map(float))),
                w_east=draw(st.one_of(st.none(), gen.log_uniform(-1, 4))), w_north=draw(st.one_of(st.none(), gen.log_uniform(-1, 4))),
                points=pts, shape=draw(st.sampled_from(blocks.shape_options(n))))


def check_checker(case, ctx):
    region = case["region"]
    kw = dict(region=tuple(region))
    amp = 1000.0
    if case["amplitude"] is not None:
        kw["amplitude"] = amp = case["amplitude"]
    if case["w_east"] is not None:
        kw["w_east"] = case["w_east"]
    if case["w_north"] is not None:
        kw["w_north"] = case["w_north"]
    cb = vd.synthetic.CheckerBoard(**kw)
    we = case["w_east"] if case["w_east"] is not None else (region[1] - region[0]) / 2
    wn = case["w_north"] if case["w_north"] is not None else (region[3] - region[2]) / 2
    e, n = arr(case["points"], 0, case["shape"]), arr(case["points"], 1, case["shape"])
    pred = np.asarray(cb.predict((e, n)))
    ctx.check(pred.shape == tuple(case["shape"]), "prediction shape %s for query shape %s", pred.shape, tuple(case["shape"]))
    flat = pred.ravel()
    for k, p in enumerate(case["points"]):
        ae = 2 * mpmath.pi * mpmath.mpf(p[0]) / mpmath.mpf(we)
        an = 2 * mpmath.pi * mpmath.mpf(p[1]) / mpmath.mpf(wn)
        exact = mpmath.mpf(amp) * mpmath.sin(ae) * mpmath.cos(an)
        tol = abs(amp) * EPS * (4 + 2 * float(abs(ae)) + 2 * float(abs(an))) + 1e-300
        if abs(mpmath.mpf(float(flat[k])) - exact) > tol:
            raise Violation("CheckerBoard(%r).predict(%r) = %r, a sin(2 pi e/w_e) cos(2 pi n/w_n) with w=(%r, %r) gives %s" % (kw, p, float(flat[k]), we, wn, mpmath.nstr(exact, 20)))
    ctx.check(tuple(cb.region_) == tuple(region), "region_ differs from the given region")
    ctx.label("default_w" if case["w_east"] is None and case["w_north"] is None else "given_w")
    ctx.nt(True)


# ---------------------------------------------------------------- SciPy differential
@st.composite
def scipy_cases(draw):
    n = draw(st.integers(4, 30))
    cells = draw(st.lists(st.tuples(st.integers(0, 9), st.integers(0, 9)), min_size=n, max_size=n, unique=True))
    scale = draw(st.sampled_from([1.0, 0.01, 1e3, 1e6]))
    aspect = draw(st.sampled_from([1.0, 1.0, 0.1, 50.0]))
    off = draw(st.sampled_from([0.0, 100.0, -1e4]))
    pts = [[off + scale * (a + gen.JITTER[(5 * a + b) % 12]), off + scale * aspect * (b + gen.JITTER[(a + 7 * b + 3) % 12])] for a, b in cells]
    # SciPy accepts exactly repeated coordinates (with different values); so must verde, with the same result
    ndup = draw(st.sampled_from([0, 0, 1, 2, 3]))
    for _ in range(ndup):
        pts.append(list(pts[draw(st.integers(0, n - 1))]))
    n = len(pts)
    vals = draw(st.lists(gen.finite(-1e3, 1e3), min_size=n, max_size=n))
    m = draw(st.integers(1, 12))
    qs = [[off + scale * draw(gen.finite(-2, 12)), off + scale * aspect * draw(gen.finite(-2, 12))] for _ in range(m)]
    return dict(points=pts, values=vals, query=qs, kind=draw(st.sampled_from(["linear", "cubic"])), rescale=draw(st.booleans()),
                dshape=draw(st.sampled_from(blocks.shape_options(n))), qshape=draw(st.sampled_from(blocks.shape_options(m))))


def check_scipy(case, ctx):
    pts, vals, qs = np.array(case["points"]), np.array(case["values"]), np.array(case["query"])
    from vlib.oracles import convex_hull
    from fractions import Fraction

    if len(convex_hull([(Fraction(float(a)), Fraction(float(b))) for a, b in pts])) < 3:
        ctx.skip("degenerate_hull")
    ds, qshape = case["dshape"], case["qshape"]
    cls = vd.Linear if case["kind"] == "linear" else vd.Cubic
    g = cls(rescale=case["rescale"]) if case["rescale"] else (cls() if case["kind"] == "linear" else cls(rescale=False))
    g.fit((pts[:, 0].reshape(ds), pts[:, 1].reshape(ds)), vals.reshape(ds))
    qe, qn = qs[:, 0].reshape(qshape), qs[:, 1].reshape(qshape)
    got = np.asarray(g.predict(vbuild.maybe_stack((qe, qn), vbuild.stack_flag(case))))
    ref_cls = LinearNDInterpolator if case["kind"] == "linear" else CloughTocher2DInterpolator
    ref = ref_cls(np.column_stack([pts[:, 0], pts[:, 1]]), vals, rescale=case["rescale"])((qe, qn))
    ctx.check(got.shape == tuple(qshape), "prediction shape %s for query shape %s", got.shape, tuple(qshape))
    if not np.array_equal(got, ref, equal_nan=True):
        raise Violation("%s(rescale=%r) differs from SciPy's interpolator on the same points: %r vs %r" % (cls.__name__, case["rescale"], got.ravel().tolist(), np.asarray(ref).ravel().tolist()))
    # the same from copies of the fitted gridder made by the copy and pickle modules (what joblib / dask.distributed hand to their workers)
    import copy
    import pickle

    for how, dup in (("copy.deepcopy", copy.deepcopy(g)), ("a pickle round trip", pickle.loads(pickle.dumps(g)))):
        again = np.asarray(dup.predict((qe, qn)))
        if not np.array_equal(again, ref, equal_nan=True):
            raise Violation("%s(rescale=%r) after %s differs from SciPy's interpolator on the same points: %r vs %r" % (cls.__name__, case["rescale"], how, again.ravel().tolist(), np.asarray(ref).ravel().tolist()))
    ctx.label(case["kind"], "rescale" if case["rescale"] else "norescale", "has_outside" if np.isnan(ref).any() else "all_inside",
              "repeated_points" if len({tuple(p) for p in case["points"]}) < len(case["points"]) else "distinct_points")
    ctx.nt(True)


SUBCHECKS = [
    Sub("spline_kernel", check_spline, strategy=spline_cases(), quick=400, thorough=2500, shards_quick=2,
        doc="Spline.jacobian entries and predict with externally set forces vs r^2(ln r - 1) in 50-digit arithmetic; finite at coincident points"),
    Sub("vector_kernel", check_vector, strategy=vector_cases(), quick=400, thorough=2500, shards_quick=2,
        doc="VectorSpline2D.jacobian blocks [[ee, ne], [ne, nn]] and predict vs the coupled elastic Green's functions"),
    Sub("translation", check_translation, strategy=translation_cases(), quick=300, thorough=1500,
        doc="spline matrices depend only on coordinate differences: bitwise equal under exactly representable common translations"),
    Sub("trend", check_trend, strategy=trend_cases(), quick=300, thorough=2000, shards_quick=2,
        doc="Trend.jacobian columns are the documented monomials ((N+1)(N+2)/2 of them) and predict is the polynomial with coef_"),
    Sub("checkerboard", check_checker, strategy=checker_cases(), quick=300, thorough=1500,
        doc="CheckerBoard.predict vs amplitude sin cos with default wavelengths of half the region"),
    Sub("scipy_differential", check_scipy, strategy=scipy_cases(), quick=300, thorough=2000, shards_quick=2,
        doc="Linear/Cubic equal LinearNDInterpolator/CloughTocher2DInterpolator on the same raveled points and rescale option, inside and outside the hull"),
]
