"""C08 - block_split assigns every point to the one block that contains it."""
from fractions import Fraction

import numpy as np
import verde as vd
from hypothesis import strategies as st

from vlib import blocks, build, gen
from vlib.oracles import EPS, exact
from vlib.runner import Sub, Violation

PROPERTY = "C08"
RULE = ("block grid chosen first (1..6 x 1..6 non-square blocks, any origin/size), presented to verde as shape / dividing spacing / "
        "spacing to adjust / region to adjust / region inferred; points placed inside chosen blocks, exactly on shared edges and corners, "
        "a hair from edges, and outside the region on every side; non-trivial = at least 2 blocks in some direction and (an edge or outside "
        "point, or 2 points in one block); distinct = SHA-1 of the case")
ASSUMPTIONS = [
    "a point within 1e-9 of a block edge (in block units) may get either neighbour's label (the property allows it)",
    "admissible labels are computed in exact rational arithmetic from the float coordinates and the documented grid rules (C07 model)",
]


@st.composite
def cases(draw):
    lay = draw(blocks.layouts())
    nb_e, nb_n = lay["nb_e"], lay["nb_n"]
    pts = draw(blocks.interior_points(lay, min_points=1, max_points=30))
    n_extra = draw(st.integers(0, 8))
    kinds = []
    for _ in range(n_extra):
        kind = draw(st.sampled_from(["edge_x", "edge_y", "corner", "near", "outside", "border"]))
        kx, ky = draw(st.integers(0, nb_e - 1)), draw(st.integers(0, nb_n - 1))
        f = draw(st.sampled_from(blocks.INTERIOR))
        if kind == "edge_x":
            p = [kx, 0.0, ky, f]
        elif kind == "edge_y":
            p = [kx, f, ky, 0.0]
        elif kind == "corner":
            p = [kx, 0.0, ky, 0.0]
        elif kind == "near":
            p = [kx, draw(st.sampled_from([1e-13, 1e-7, 1 - 1e-7, 1e-4])), ky, f]
        elif kind == "border":
            p = draw(st.sampled_from([[nb_e - 1, 1.0, ky, f], [kx, f, nb_n - 1, 1.0], [0, 0.0, ky, f], [kx, f, 0, 0.0]]))
        else:
            ox = draw(st.sampled_from([-3, -1, 0, 0, nb_e, nb_e + 2]))
            oy = draw(st.sampled_from([-3, -1, 0, 0, nb_n, nb_n + 2]))
            if 0 <= ox < nb_e and 0 <= oy < nb_n:
                ox = -1
            p = [ox if not 0 <= ox < nb_e else kx, f, oy if not 0 <= oy < nb_n else ky, draw(st.sampled_from(blocks.INTERIOR))]
        if lay["pres"] == "inferred" and kind in ("outside",):
            continue
        pts.append(p)
        kinds.append(kind)
    if lay["pres"] == "inferred":
        pts.extend(blocks.corner_points(lay))
    order = draw(st.permutations(range(len(pts))))
    pts = [pts[k] for k in order]
    shape = draw(st.sampled_from(blocks.shape_options(len(pts))))
    return dict(layout=lay, points=pts, shape=shape, order=draw(st.sampled_from(build.ORDERS)), order2=draw(st.sampled_from(build.ORDERS)), container=draw(st.sampled_from(build.CONTAINERS)), kinds=sorted(set(kinds)),
                extra=draw(st.booleans()), table=draw(st.sampled_from(build.TABLES)),
                collinear=(draw(st.sampled_from([None, None, "north", "east"])) if (lay["pres"] in ("inferred", "inferred_spacing") and not lay.get("pixel")) else None))


def check(case, ctx):
    lay, pts = case["layout"], case["points"]
    xy = [blocks.point_xy(lay, p) for p in pts]
    if case.get("collinear"):
        # a survey line: every point at the same northing (or easting); with the region inferred that direction has no extent and holds one row (column) of blocks
        k = 1 if case["collinear"] == "north" else 0
        xy = [tuple(v if axis != k else xy[0][k] for axis, v in enumerate(p)) for p in xy]
    lay_ = build.Lay([case["order"], case.get("order2", case["order"])])
    e = lay_([p[0] for p in xy], case["shape"])
    n = lay_([p[1] for p in xy], case["shape"])
    e, n = blocks.pixel_array(lay, e), blocks.pixel_array(lay, n)
    e, n = build.table_views(e, n, case.get("table"))
    coords = (e, n) + ((np.arange(e.size, dtype="float64").reshape(e.shape),) if case["extra"] else ())
    kw = blocks.verde_kwargs(lay)
    if case.get("collinear") and "shape" in kw:
        kw["shape"] = (1, kw["shape"][1]) if case["collinear"] == "north" else (kw["shape"][0], 1)  # one row (column) of blocks along the direction without extent
    block_coords, labels = vd.block_split(tuple(build.present(c, case.get("container")) for c in coords), **kw)
    cands = blocks.grid_from_kwargs(kw, coords)
    ctx.check(len(block_coords) == 2, "block_split must return easting and northing of the blocks")
    be, bn = np.asarray(block_coords[0]), np.asarray(block_coords[1])
    ctx.check(be.ndim == 1 and be.shape == bn.shape, "block coordinates must be two 1-D arrays of equal size")
    grid = [g for g in cands if g["nb_n"] * g["nb_e"] == be.size]
    if not grid:
        raise Violation("block_split(%r) made %d blocks; the documented rules give %s" % (kw, be.size, [(g["nb_n"], g["nb_e"]) for g in cands]))
    labels = np.asarray(labels)
    ctx.check(labels.shape == (len(pts),), "labels must be 1-D with one entry per point, got shape %s", labels.shape)
    ctx.check(np.issubdtype(labels.dtype, np.integer), "labels must be integers")
    ctx.check(np.all((labels >= 0) & (labels < be.size)), "labels outside the valid block index range")
    last_why = None
    for g in grid:
        ok = True
        # block centres: pixel-registered grid, row-major from the south-west corner
        scale = max(abs(float(g["W"])), abs(float(g["W"] + g["nb_e"] * g["dx"])), abs(float(g["S"])), abs(float(g["S"] + g["nb_n"] * g["dy"])), 1e-300)
        for b in range(be.size):
            i, j = divmod(b, g["nb_e"])
            cx = g["W"] + (Fraction(2 * j + 1, 2)) * g["dx"]
            cy = g["S"] + (Fraction(2 * i + 1, 2)) * g["dy"]
            if abs(exact(be[b], "block centre") - cx) > Fraction(8 * EPS * scale) or abs(exact(bn[b], "block centre") - cy) > Fraction(8 * EPS * scale):
                ok = False
                last_why = "block %d centre (%r, %r) != (%r, %r) (row-major from SW corner, pixel registered)" % (
                    b, float(be[b]), float(bn[b]), float(cx), float(cy))
                break
        if not ok:
            continue
        flat_e, flat_n = np.asarray(e).ravel(order="C"), np.asarray(n).ravel(order="C")
        for k in range(len(pts)):
            adm = blocks.admissible_labels(flat_e[k], flat_n[k], g)
            if int(labels[k]) not in adm:
                ok = False
                last_why = "point %d (%r, %r) [block units %r] got label %d, admissible %s (grid %dx%d, kwargs %r)" % (
                    k, float(flat_e[k]), float(flat_n[k]), pts[k], int(labels[k]), sorted(adm), g["nb_n"], g["nb_e"], kw)
                break
        if ok:
            break
    else:
        raise Violation(last_why)
    per_block = {}
    for p in pts:
        if 0 <= p[0] < lay["nb_e"] and 0 <= p[2] < lay["nb_n"] and 0 < p[1] < 1 and 0 < p[3] < 1:
            per_block[(p[0], p[2])] = per_block.get((p[0], p[2]), 0) + 1
    ctx.label(lay["pres"], "ndim%d" % e.ndim, "dtype_%s" % (lay.get("pixel") or "float64"), *(["collinear_" + case["collinear"]] if case.get("collinear") else []), *case["kinds"])
    if lay["nb_n"] == 1 or lay["nb_e"] == 1:
        ctx.label("single_row_or_column")
    multi = max(lay["nb_n"], lay["nb_e"]) >= 2
    ctx.nt(multi and (bool(case["kinds"]) or max(per_block.values(), default=0) >= 2))


def check_large(case, ctx):
    e, n, labels, region, spacing = blocks.big_cloud(case)
    kw = dict(spacing=spacing) if case["by"] == "spacing" else dict(shape=(case["nb_n"], case["nb_e"]))
    block_coords, got = vd.block_split((e, n), region=region, **kw)
    got = np.asarray(got)
    ctx.check(got.shape == labels.shape, "labels must have one entry per point")
    if not np.array_equal(got, labels):
        k = int(np.argmax(got != labels))
        raise Violation("point %d of %d (%r, %r) got label %d, floor division gives %d (region %r, %r)" % (k, e.size, float(e[k]), float(n[k]), int(got[k]), int(labels[k]), region, kw))
    be, bn = np.asarray(block_coords[0]), np.asarray(block_coords[1])
    ce = region[0] + (np.arange(case["nb_e"]) + 0.5) * case["dx"]
    cn = region[2] + (np.arange(case["nb_n"]) + 0.5) * case["dy"]
    ee, nn = np.meshgrid(ce, cn)
    ctx.check(be.shape == (case["nb_n"] * case["nb_e"],) and np.array_equal(be, ee.ravel()) and np.array_equal(bn, nn.ravel()), "block centres are not the row-major pixel-registered grid")
    ctx.label("n%d" % e.size, case["by"])
    ctx.nt(case["nb_n"] * case["nb_e"] >= 4)


SUBCHECKS = [
    Sub("block_split", check, strategy=cases(), quick=1500, thorough=5000,
        doc="labels and block centres vs the exact rational model for interior, edge, corner, near-edge and outside points"),
    Sub("large", check_large, strategy=blocks.big_cases, quick=10, thorough=60, heavy=True,
        doc="20 000 - 120 000 points on a dyadic sub-lattice of up to 40 x 40 blocks: labels equal floor division (vectorised oracle)"),
]
