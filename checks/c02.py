"""C02 - fitted models are the weighted, damped least-squares optimum."""
import math
import warnings

import numpy as np
import verde as vd
from hypothesis import strategies as st

from vlib import blocks, gen, kernels
from vlib import build as vbuild
from vlib.oracles import EPS, held_prediction
from vlib.runner import Sub, Violation

PROPERTY = "C02"
RULE = ("jittered-lattice clouds (3..30 points, scales 1e-2..1e4, offsets up to 10x extent; a third with exact structure: regular grids, survey lines, "
        "sorted storage; Trend also with stations occupied several times), data 1e-6..1e6, weights none, non-uniform (different per component for "
        "vector data), uniform other than 1, or with a quarter of them exactly zero, damping None or log-uniform [1e-8, 1e2], forces at the data or at a separate smaller "
        "set, Trend degrees 0..4, Poisson in [-1, 1]; non-trivial = the problem is over-determined or damped, weights are non-uniform (when given) "
        "and the case was not skipped by the conditioning rule; distinct = SHA-1 of the case")
ASSUMPTIONS = [
    "reference: harness-built Jacobian (own kernels), columns divided by their population standard deviation (1 for constant columns), SVD solve of the "
    "augmented system [sqrt(W) J/s; sqrt(damping) I]; never scikit-learn, never the normal equations",
    "prediction agreement asserted within 256*kappa*eps*scale (undamped) or 256*kappa^2*eps*scale (damped, normal-equation solver), scale = |J_q| |p|; "
    "skipped (counted) when that bound exceeds 1e-6*scale",
    "optimality asserted directly: objective at verde's parameters <= reference optimum * (1 + 1e-8) + sum(w) (64 kappa eps max|d|)^2 (damped fits, solved "
    "through the normal equations: plus sum(w) (64 kappa^2 eps max|d|)^2), for kappa <= 1e10",
    "under-determined undamped problems have no unique optimum and are skipped",
]
K = 256.0


def quiet(fn, *a, **k):
    with warnings.catch_warnings():
        warnings.simplefilter("ignore")
        return fn(*a, **k)


@st.composite
def base_cases(draw, ncomp=1, min_n=3, max_n=30):
    cloud = draw(gen.clouds(min_n=min_n, max_n=max_n, max_exp=4, min_exp=-5, ratios=[0.0, 0.0, 1.0, -1.0, 10.0, -10.0], structures=gen.STRUCTURES))
    n = len(cloud["cells"])
    kind = draw(st.sampled_from(["unit", "int", "big", "small", "mixed"]))
    data = [draw(gen.data_values(n, kind)) for _ in range(ncomp)]
    wmode = draw(st.sampled_from(["none", "given", "given", "uniform", "zeros", "counts"]))
    if wmode == "zeros":
        # some data switched off with a weight of exactly zero (flagged outliers): they leave the residual term, and nothing else changes -
        # the column scaling that defines the damping norm is still that of the whole Jacobian
        weights = [[0.0 if (k + c) % 4 == 1 else v for k, v in enumerate(draw(gen.weights_values(n)))] for c in range(ncomp)]
    elif wmode == "counts":
        # numbers of observations per block (what BlockReduce(np.size) returns) used as weights, in the integer dtype they come in
        weights = [[float(v) for v in draw(st.lists(st.integers(1, 9), min_size=n, max_size=n))] for _ in range(ncomp)]
    elif wmode == "uniform":
        # all weights equal to a constant other than 1 (they still rescale the damping)
        weights = [[draw(st.sampled_from([0.01, 0.25, 3.0, 100.0]))] * n for _ in range(ncomp)]
    else:
        weights = None if wmode == "none" else [draw(gen.weights_values(n)) for _ in range(ncomp)]
    damping = draw(st.one_of(st.none(), gen.log_uniform(-8, 2)))
    m = draw(st.integers(1, 8))
    query = [[draw(gen.finite(-1, cloud["side"] + 1)), draw(gen.finite(-1, cloud["side"] + 1))] for _ in range(m)]
    return dict(cloud=cloud, data=data, weights=weights, int_weights=(wmode == "counts"), damping=damping, query=query, shape=draw(st.sampled_from(blocks.shape_options(n))),
                orders=draw(vbuild.orders_strategy()), int_dtype=(kind == "int" and draw(st.booleans())), force_container=draw(st.sampled_from(vbuild.CONTAINERS)))


def arrays(case):
    es, ns = gen.cloud_xy(case["cloud"])
    shape = case["shape"]
    lay = vbuild.Lay(case.get("orders"))
    datas, ws = case["data"], case["weights"]
    if case.get("reoccupied"):
        es, ns, datas, ws = list(es), list(ns), [list(d) for d in datas], None if ws is None else [list(w) for w in ws]
        dmax = max(abs(v) for v in datas[0]) or 1.0
        for i in range(min(case["reoccupied"], len(case["cloud"]["cells"]))):
            for j in range(1 + i % 3):
                es.append(es[i])
                ns.append(ns[i])
                for d in datas:
                    d.append(float(round(d[i])) + j + 1 if case.get("int_dtype") else d[i] + 0.37 * (j + 1) * dmax)
                for w in ws or []:
                    w.append(w[i] * (j + 2) / 2.0)
        shape = [len(es)]
    e, n = lay(es, shape), lay(ns, shape)
    data = [lay(d, shape, "int64" if case.get("int_dtype") else "float64") for d in datas]
    weights = None if ws is None else [lay(w, shape, "int64" if case.get("int_weights") and not case.get("reoccupied") else "float64") for w in ws]
    qe, qn = gen.cloud_query(case["cloud"], case["query"])
    return e, n, data, weights, np.array(qe), np.array(qn)


def data_scale(jac, jac_q, s, dmax):
    """Backward-stable solvers err relative to the data magnitude (not to a solution that happens to cancel to ~0): max|d| amplified by how
    much larger the query rows are than the data rows (extrapolation), in the scaled space."""
    rows_d = float(np.max(np.linalg.norm(jac / s, axis=1))) or 1.0
    rows_q = np.linalg.norm(jac_q / s, axis=1)
    return dmax * np.maximum(1.0, rows_q / rows_d)


def judge(ctx, what, jac, jac_q, data, weights, damping, params, pred_q, kernel_abs=None, kernel_abs_fit=None):
    """Compare verde's parameters/predictions with the reference optimum."""
    data = np.concatenate([d.ravel() for d in data])
    w = None if weights is None else np.concatenate([x.ravel() for x in weights])
    if damping is None and jac.shape[0] < jac.shape[1]:
        ctx.skip("underdetermined_undamped")
    p_ref, s, cond, obj_ref = kernels.reference_fit(jac, data, w, damping)
    if not cond <= 1e10:
        ctx.skip("ill_conditioned")
    params = np.asarray(params, dtype="float64")
    ctx.check(params.shape == (jac.shape[1],), "%s: %d parameters expected, got shape %s", what, jac.shape[1], params.shape)
    ww = np.ones(data.size) if w is None else w
    obj = kernels.objective(jac / s, data, ww, damping, params * s)
    dmax = float(np.max(np.abs(data))) if data.size else 0.0
    slack = float(np.sum(ww)) * (64 * cond * EPS * dmax) ** 2 + 1e-290
    if damping is not None:
        # verde solves damped problems through the normal equations (scikit-learn's Ridge): the parameters carry a relative round-off of kappa^2 eps,
        # the objective an excess of its square.  Negligible up to kappa ~ 1e5; met in the thorough tier on eight collinear data points with
        # damping 1e-7 (kappa 1e6, excess 7e-8 relative; DESIGN 8.2)
        slack += float(np.sum(ww)) * (64 * cond**2 * EPS * dmax) ** 2
    # round-off in *evaluating* the objective: each residual d - a.p is known to 16 eps |a|.|p| only (large, cancelling
    # parameters when the system is ill conditioned); found by the thorough tier at kappa ~ 5e8
    a_s = np.abs(jac / s)
    r_err = 16 * EPS * max(float(np.max(a_s @ np.abs(params * s))), float(np.max(a_s @ np.abs(p_ref * s))))
    if kernel_abs_fit is not None:
        # verde's own kernel values differ from the harness' by their evaluation error (C03 bounds): each residual moves by |dJ|.|p|
        r_err += float(np.max(kernel_abs_fit @ np.abs(params)))
    slack += 2 * r_err * float(np.sqrt(np.sum(ww) * max(obj_ref, 0.0))) + float(np.sum(ww)) * r_err**2
    if not obj <= obj_ref * (1 + 1e-8) + slack:
        raise Violation("%s: objective at verde's parameters is %.10e, the weighted damped least-squares optimum is %.10e (damping=%r, weights=%s, kappa %.2e)"
                        % (what, obj, obj_ref, damping, "given" if w is not None else "none", cond))
    # predictions
    exp_q = jac_q @ p_ref
    scale_q = np.abs(jac_q) @ np.abs(p_ref)
    power = 1 if damping is None else 2
    bound = K * cond**power * EPS
    if bound > 1e-6:
        ctx.label("prediction_comparison_skipped")
    else:
        pred_q = np.concatenate([np.asarray(p).ravel() for p in pred_q])
        err = np.abs(pred_q - exp_q)
        tol = bound * (scale_q + data_scale(jac, jac_q, s, dmax) + 1e-290)
        if kernel_abs is not None:
            # absolute evaluation error of the kernels themselves (C03 bounds), times the parameters
            tol = tol + kernel_abs @ np.abs(p_ref)
        if np.any(err > tol):
            k = int(np.argmax(err - tol))
            raise Violation("%s: prediction %r differs from the reference solution %r by %.3e (tolerance %.3e, kappa %.2e, damping=%r)"
                            % (what, float(pred_q[k]), float(exp_q[k]), float(err[k]), float(tol[k]), cond, damping))
    if w is not None and np.any(w == 0):
        ctx.label("some_zero_weights")
    ctx.label("damped" if damping is not None else "undamped", "weights" if w is not None else "noweights",
              "overdetermined" if jac.shape[0] > jac.shape[1] else "square_or_under")
    nonuniform = w is None or len(set(np.round(w, 12).tolist())) > 1 or (damping is not None and float(w[0]) != 1.0)
    return (jac.shape[0] > jac.shape[1] or damping is not None) and nonuniform


# ---------------------------------------------------------------- Trend
@st.composite
def trend_cases(draw):
    case = draw(base_cases())
    case["degree"] = draw(st.integers(0, 4))
    case["damping"] = None
    case["single"] = draw(st.integers(0, 2)) == 0  # data stored in single precision (verde then works in single precision: judged with that accuracy)
    # stations occupied more than once (exactly repeated coordinates, different readings, unequal multiplicities): every reading is a datum of its own
    case["reoccupied"] = draw(st.sampled_from([0, 0, 0, 1, 3, 6]))
    return case


def check_trend_single(case, ctx, e, n, data, weights, qe, qn):
    deg = case["degree"]
    d32 = data[0].astype("float32")
    tr = vd.Trend(deg)
    quiet(tr.fit, (e, n), d32, None if weights is None else weights[0])
    jac = kernels.trend_jacobian(e, n, deg)
    jq = kernels.trend_jacobian(qe, qn, deg)
    w = np.ones(d32.size) if weights is None else np.asarray(weights[0], dtype="float64").ravel()
    norm = np.sqrt((jac ** 2).sum(axis=0))
    norm[norm == 0] = 1.0
    a = (jac / norm) * np.sqrt(w)[:, None]
    sv = np.linalg.svd(a, compute_uv=False)
    if jac.shape[0] < jac.shape[1] or sv[-1] <= 0 or sv[0] / sv[-1] > 1e3:
        ctx.skip("single_precision_ill_conditioned_or_underdetermined")
    coef = np.linalg.lstsq(a, d32.astype("float64").ravel() * np.sqrt(w), rcond=None)[0] / norm
    ref = jq @ coef
    got = np.asarray(tr.predict((qe, qn)), dtype="float64").ravel()
    amp = float(np.max(np.abs(jq) * np.abs(coef)[None, :])) + float(np.max(np.abs(d32))) + 1e-300
    tol = 1e-5 * (sv[0] / sv[-1]) * amp + 1e-30  # float32 data close to its subnormal range carry no relative accuracy
    ctx.check(np.all(np.abs(got - ref) <= tol), "Trend(%d) fitted to float32 data predicts %r, the least-squares polynomial gives %r (single-precision tolerance %.3g)",
              deg, got[:4].tolist(), ref[:4].tolist(), tol)
    ctx.label("deg%d" % deg, "float32_data")
    ctx.nt(False)


def check_trend(case, ctx):
    e, n, data, weights, qe, qn = arrays(case)
    if case.get("single"):
        return check_trend_single(case, ctx, e, n, data, weights, qe, qn)
    deg = case["degree"]
    tr = vd.Trend(deg)
    quiet(tr.fit, (e, n), data[0], None if weights is None else weights[0])
    jac = kernels.trend_jacobian(e, n, deg)
    jq = kernels.trend_jacobian(qe, qn, deg)
    nt = judge(ctx, "Trend(%d)" % deg, jac, jq, data, weights, None, tr.coef_, [tr.predict((qe, qn))])
    held_prediction(tr, qe, qn, "Trend(%d)" % deg)
    ctx.label("deg%d" % deg, "reoccupied_stations" if case.get("reoccupied") else "distinct_stations", "structure_%s" % (case["cloud"].get("structure") or "none"))
    ctx.nt(nt)


# ---------------------------------------------------------------- Spline
@st.composite
def spline_cases(draw):
    case = draw(base_cases())
    n = len(case["cloud"]["cells"])
    if draw(st.booleans()):
        k = draw(st.sampled_from([n, n])) if draw(st.integers(0, 3)) == 0 else draw(st.integers(1, max(1, n - 1)))  # also as many forces as data: a square, non-symmetric system
        case["force_fracs"] = [[draw(gen.finite(0, case["cloud"]["side"])), draw(gen.finite(0, case["cloud"]["side"]))] for _ in range(k)]
    else:
        case["force_fracs"] = None
    return case


def check_spline(case, ctx):
    e, n, data, weights, qe, qn = arrays(case)
    if case["force_fracs"] is None:
        fe, fn = e.ravel(), n.ravel()
        sp = quiet(vd.Spline, damping=case["damping"])
    else:
        fe, fn = (np.array(v) for v in gen.cloud_query(case["cloud"], case["force_fracs"]))
        sp = quiet(vd.Spline, damping=case["damping"], force_coords=(vbuild.present(fe, case.get("force_container")), vbuild.present(fn, case.get("force_container"))))
    quiet(sp.fit, (e, n), data[0], None if weights is None else weights[0])
    jac = kernels.spline_jacobian(e, n, fe, fn)
    jq = kernels.spline_jacobian(qe, qn, fe, fn)
    rho = np.hypot(qe[:, None] - fe[None, :], qn[:, None] - fn[None, :])
    kabs = 32 * EPS * (rho + rho**2 * (1 + np.abs(np.log(np.maximum(rho, 1e-300)))))
    rho_f = np.hypot(e.ravel()[:, None] - fe[None, :], n.ravel()[:, None] - fn[None, :])
    kabs_fit = 32 * EPS * (rho_f + rho_f**2 * (1 + np.abs(np.log(np.maximum(rho_f, 1e-300)))))
    nt = judge(ctx, "Spline(damping=%r)" % case["damping"], jac, jq, data, weights, case["damping"], sp.force_, [sp.predict((qe, qn))], kernel_abs=kabs, kernel_abs_fit=kabs_fit)
    held_prediction(sp, qe, qn, "Spline(damping=%r)" % case["damping"])
    ctx.label("forces_at_data" if case["force_fracs"] is None else "forces_separate")
    ctx.nt(nt)


# ---------------------------------------------------------------- large data sets (thousands of rows, a few forces)
@st.composite
def large_cases(draw):
    return dict(n=draw(st.sampled_from([2100, 3000, 5000])), k=draw(st.one_of(st.integers(8, 40), st.sampled_from([250, 400]))), seed=draw(st.integers(0, 10**6)), scale=draw(st.sampled_from([1.0, 1e3, 1e-2])),
                offset=draw(st.sampled_from([0.0, 0.0, 1e4])), damping=draw(st.sampled_from([None, 1e-6, 1e-3, 1e-1, 10.0])), weights=draw(st.booleans()),
                model=draw(st.sampled_from(["spline", "spline", "vector", "trend"])), poisson=draw(st.sampled_from([0.5, -1.0, 0.0])), degree=draw(st.integers(1, 3)))


def check_large(case, ctx):
    """The same judgement as the small cases on thousands of data points (separate force set, so the reference stays cheap)."""
    rng = np.random.RandomState(case["seed"])  # a pure function of the generated case
    n, k, sc, off = case["n"], case["k"], case["scale"], case["offset"]
    e, nn = off + sc * rng.uniform(0, 10, n), -off + sc * rng.uniform(0, 7, n)
    fe, fn = off + sc * rng.uniform(0, 10, k), -off + sc * rng.uniform(0, 7, k)
    qe, qn = off + sc * rng.uniform(0, 10, 9), -off + sc * rng.uniform(0, 7, 9)
    u, v = (e - off) / (10 * sc), (nn + off) / (7 * sc)
    d1 = 3.0 + 2.0 * u - v + np.sin(5 * u) * np.cos(4 * v) + 0.05 * rng.standard_normal(n)
    d2 = -1.0 + u * v + 0.05 * rng.standard_normal(n)
    w = None if not case["weights"] else [np.round(rng.uniform(0.25, 4.0, n) * 8) / 8, np.round(rng.uniform(0.25, 4.0, n) * 8) / 8]
    damping = case["damping"]
    if case["model"] == "spline":
        sp = quiet(vd.Spline, damping=damping, force_coords=(fe, fn))
        quiet(sp.fit, (e, nn), d1, None if w is None else w[0])
        jac, jq = kernels.spline_jacobian(e, nn, fe, fn), kernels.spline_jacobian(qe, qn, fe, fn)
        nt = judge(ctx, "Spline(damping=%r) on %d points, %d forces" % (damping, n, k), jac, jq, [d1], None if w is None else [w[0]], damping, sp.force_, [sp.predict((qe, qn))])
    elif case["model"] == "vector":
        md = 0.5 * sc
        vs = vd.VectorSpline2D(poisson=case["poisson"], mindist=md, damping=damping, force_coords=(fe, fn))
        quiet(vs.fit, (e, nn), (d1, d2), None if w is None else tuple(w))
        jac, jq = kernels.vector_jacobian(e, nn, fe, fn, md, case["poisson"]), kernels.vector_jacobian(qe, qn, fe, fn, md, case["poisson"])
        nt = judge(ctx, "VectorSpline2D(poisson=%r, damping=%r) on %d points, %d forces" % (case["poisson"], damping, n, k), jac, jq, [d1, d2], w, damping, vs.force_, list(vs.predict((qe, qn))))
    else:
        tr = vd.Trend(case["degree"])
        quiet(tr.fit, (e, nn), d1, None if w is None else w[0])
        jac, jq = kernels.trend_jacobian(e, nn, case["degree"]), kernels.trend_jacobian(qe, qn, case["degree"])
        nt = judge(ctx, "Trend(%d) on %d points" % (case["degree"], n), jac, jq, [d1], None if w is None else [w[0]], None, tr.coef_, [tr.predict((qe, qn))])
    ctx.label(case["model"], "n%d" % n, "damped" if damping is not None and case["model"] != "trend" else "undamped")
    ctx.nt(bool(nt) or True)


# ---------------------------------------------------------------- VectorSpline2D
@st.composite
def vector_cases(draw):
    case = draw(base_cases(ncomp=2, max_n=20))
    n = len(case["cloud"]["cells"])
    case["poisson"] = draw(st.one_of(st.sampled_from([-1.0, 0.0, 0.5, 1.0]), gen.finite(-1, 1)))
    case["mindist"] = draw(st.sampled_from([0.1, 1.0, 3.0]))
    if draw(st.booleans()):
        k = draw(st.sampled_from([n, n])) if draw(st.integers(0, 3)) == 0 else draw(st.integers(1, max(1, n - 1)))  # also as many forces as data: a square, non-symmetric system
        case["force_fracs"] = [[draw(gen.finite(0, case["cloud"]["side"])), draw(gen.finite(0, case["cloud"]["side"]))] for _ in range(k)]
    else:
        case["force_fracs"] = None
    return case


def check_vector(case, ctx):
    e, n, data, weights, qe, qn = arrays(case)
    md = case["mindist"] * case["cloud"]["scale"]
    kw = dict(poisson=case["poisson"], mindist=md, damping=case["damping"])
    if case["force_fracs"] is None:
        fe, fn = e.ravel(), n.ravel()
        vs = vd.VectorSpline2D(**kw)
    else:
        fe, fn = (np.array(v) for v in gen.cloud_query(case["cloud"], case["force_fracs"]))
        vs = vd.VectorSpline2D(force_coords=(fe, fn), **kw)
    quiet(vs.fit, (e, n), tuple(data), None if weights is None else tuple(weights))
    jac = kernels.vector_jacobian(e, n, fe, fn, md, case["poisson"])
    jq = kernels.vector_jacobian(qe, qn, fe, fn, md, case["poisson"])
    pred = vs.predict((qe, qn))
    rho = np.hypot(qe[:, None] - fe[None, :], qn[:, None] - fn[None, :]) + md
    kabs1 = 32 * EPS * (2 + np.abs((3 - case["poisson"]) * np.log(rho)))
    kabs = np.block([[kabs1, kabs1], [kabs1, kabs1]])
    nt = judge(ctx, "VectorSpline2D(%r)" % kw, jac, jq, data, weights, case["damping"], vs.force_, list(pred), kernel_abs=kabs)
    held_prediction(vs, qe, qn, "VectorSpline2D(%r)" % kw)
    if weights is not None:
        nt = nt and not np.allclose(weights[0], weights[1])
    ctx.label("forces_at_data" if case["force_fracs"] is None else "forces_separate")
    ctx.nt(nt)


# ---------------------------------------------------------------- metamorphic: weight scaling, vanishing weight
@st.composite
def meta_cases(draw):
    case = draw(base_cases(min_n=8, max_n=30))
    n = len(case["cloud"]["cells"])
    case["weights"] = [draw(gen.weights_values(n))]
    case["damping"] = None
    case["model"] = draw(st.sampled_from(["trend0", "trend1", "trend2", "spline"]))
    case["factor"] = draw(gen.log_uniform(-3, 3))
    k = draw(st.integers(1, 5))
    case["force_fracs"] = [[draw(gen.finite(0, case["cloud"]["side"])), draw(gen.finite(0, case["cloud"]["side"]))] for _ in range(k)]
    case["outlier_index"] = draw(st.integers(0, n - 1))
    case["outlier"] = draw(st.sampled_from([1e3, -1e3, 10.0, -500.0]))
    return case


def check_meta(case, ctx):
    e, n, data, weights, qe, qn = arrays(case)
    d, w = data[0], weights[0]
    if case["model"] == "spline":
        fe, fn = (np.array(v) for v in gen.cloud_query(case["cloud"], case["force_fracs"]))
        make = lambda: quiet(vd.Spline, force_coords=(fe, fn))  # noqa: E731
        jac, jq = kernels.spline_jacobian(e, n, fe, fn), kernels.spline_jacobian(qe, qn, fe, fn)
    else:
        deg = int(case["model"][-1])
        make = lambda: vd.Trend(deg)  # noqa: E731
        jac, jq = kernels.trend_jacobian(e, n, deg), kernels.trend_jacobian(qe, qn, deg)
    if jac.shape[0] <= jac.shape[1] + 1:
        ctx.skip("not_overdetermined")
    p_ref, s, cond, _ = kernels.reference_fit(jac, d.ravel(), w.ravel(), None)
    if not cond <= 1e6:
        ctx.skip("ill_conditioned")
    scale = np.abs(jq) @ np.abs(p_ref) + data_scale(jac, jq, s, float(np.max(np.abs(d)))) + 1e-290
    a = quiet(make().fit, (e, n), d, w).predict((qe, qn))
    b = quiet(make().fit, (e, n), d, w * case["factor"]).predict((qe, qn))
    tol = K * cond * EPS * scale
    ctx.check(np.all(np.abs(np.asarray(a) - np.asarray(b)) <= 2 * tol),
              "multiplying all weights by %r changes the undamped fit: %r vs %r", case["factor"], np.asarray(a).tolist(), np.asarray(b).tolist())
    # a datum whose weight tends to zero stops influencing the fit
    if cond <= 100:
        i = case["outlier_index"]
        dmax = float(np.max(np.abs(d))) or 1.0
        d2, w2 = np.array(d, order="C"), np.array(w, order="C")  # C-ordered copies: ravel() below must be a view
        d2.ravel()[i] = case["outlier"] * dmax
        w2.ravel()[i] = 1e-14 * float(w.min())
        keep = np.ones(d.size, dtype=bool)
        keep[i] = False
        with_out = np.asarray(quiet(make().fit, (e, n), d2, w2).predict((qe, qn)))
        without = np.asarray(quiet(make().fit, (e.ravel()[keep], n.ravel()[keep]), d.ravel()[keep], w.ravel()[keep]).predict((qe, qn)))
        j2 = jac[keep]
        if j2.shape[0] > j2.shape[1]:
            _, _, cond2, _ = kernels.reference_fit(j2, d.ravel()[keep], w.ravel()[keep], None)
            if cond2 <= 100:
                lim = 1e-7 * np.maximum(scale, dmax)
                ctx.check(np.all(np.abs(with_out - without) <= lim),
                          "a datum with weight 1e-14*min(w) and value %r*max|d| still moves the fit by %.3e (limit %.3e)",
                          case["outlier"], float(np.max(np.abs(with_out - without))), float(np.max(lim)))
                ctx.label("vanishing_weight_checked")
    ctx.label(case["model"])
    ctx.nt(True)


SUBCHECKS = [
    Sub("trend", check_trend, strategy=trend_cases(), quick=400, thorough=2500, shards_quick=2,
        doc="Trend coefficients/predictions vs the independent weighted least-squares solution; objective optimality"),
    Sub("spline", check_spline, strategy=spline_cases(), quick=400, thorough=2500, shards_quick=2,
        doc="Spline forces/predictions (forces at the data or separate, damped or not, weighted or not) vs the independent solution; objective optimality"),
    Sub("vector_spline", check_vector, strategy=vector_cases(), quick=300, thorough=2000, shards_quick=2,
        doc="VectorSpline2D with per-component weights vs the independent coupled solution; objective optimality"),
    Sub("weights_metamorphic", check_meta, strategy=meta_cases(), quick=300, thorough=2000, shards_quick=2,
        doc="undamped fit invariant under a common positive weight factor; a datum of vanishing weight stops influencing the fit"),
    Sub("large", check_large, strategy=large_cases(), quick=10, thorough=50, heavy=True,
        doc="Spline / VectorSpline2D / Trend on 2 100 - 5 000 data points (8-40 separate forces): same optimum judgement as the small cases"),
]
