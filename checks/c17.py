"""C17 - longitude_continuity yields a valid region with unchanged angular meaning.

Oracle: exact modular arithmetic on rationals (fractions.Fraction of the float inputs)."""
import math
from fractions import Fraction

import numpy as np
import verde as vd
from hypothesis import strategies as st

from vlib import build, gen
from vlib.runner import Sub, Violation

PROPERTY = "C17"
RULE = ("cases are (W, E, S, N) regions plus probe longitude/latitude arrays: the exhaustive 5-degree lattice of (W, E) "
        "(thorough: refined to 1 degree around the seams 0/180/360/-180) with probe longitudes every 5 degrees, and "
        "Hypothesis-generated off-lattice bounds and longitudes; non-trivial = the arc is representable and crosses or touches a seam "
        "(0, 180, 360, -180) or has W > E numerically, or an invalid input must be rejected; distinct = SHA-1 of the case")
ASSUMPTIONS = [
    "arcs whose width or whose |E-W| is within 0.01 degree of, but not equal to, 360 are excluded (documented approximate full-globe test)",
    "arcs representable in neither [0, 360] nor [-180, 180] are counted, not asserted (outside the property's quantifier)",
    "off-lattice: congruences are asserted to 1e-9 degree and probe longitudes within 1e-9 degree of a bound are exempt from the inside test",
    "coordinates are given as a list/tuple of arrays (the documented form)",
]
F360 = Fraction(360)
TOL = Fraction(1, 10**9)


def fmod360(x):
    return x - F360 * math.floor(x / F360)


def arc_model(W, E):
    """width, representable?, excluded?"""
    Wf, Ef = Fraction(W), Fraction(E)
    d = abs(Ef - Wf)
    if d == F360:
        width = F360
    else:
        width = fmod360(Ef - Wf)
        # the documented full-globe test is approximate (it looks at |E - W|):
        # arcs whose width or whose |E - W| is within 0.01 degree of, but not
        # equal to, a full circle are outside the property's quantifier
        if abs(d - F360) <= Fraction(1, 100) or F360 - width <= Fraction(1, 100):
            return None, False, True
    w360 = fmod360(Wf)
    w180 = fmod360(Wf + 180) - 180
    rep = (w360 + width <= F360) or (w180 + width <= 180)
    return width, rep, False


def cong(a, b, tol):
    """a congruent to b modulo 360 within tol"""
    r = fmod360(Fraction(a) - Fraction(b))
    return r <= tol or F360 - r <= tol


def check_arc(case, ctx):
    W, E, S, N = case["region"]
    lattice = case.get("lattice", False)
    tol = Fraction(0) if lattice else TOL
    width, rep, excluded = arc_model(W, E)
    if excluded:
        ctx.skip("near_full_circle_excluded")
    if not rep:
        ctx.skip("not_representable")
    if case.get("int_region"):
        region_in = [int(W), int(E), int(S), int(N)]
    else:
        region_in = [float(W), float(E), float(S), float(N)]
    lon_in = np.array(case["lon"], dtype="float64").reshape(case.get("lon_shape", [-1]))
    lat_in = np.array(case["lat"], dtype="float64").reshape(lon_in.shape)
    if case.get("lattice") and not case.get("single"):
        # the same arc again with each seam value / bound as the only longitude of the call (what happens to one
        # longitude must not depend on which other longitudes share its array)
        for probe in (-180.0, 0.0, 180.0, 360.0, float(W), float(E)):
            check_arc(dict(case, lon=[probe], lat=[0.0], single=True), ctx)
        # one point given as plain numbers / numpy scalars / 0-d arrays instead of arrays
        for k, probe in enumerate(case["lon"][:6]):
            check_arc(dict(case, lon=[probe], lat=[0.0], single=True, scalar=["float", "0d", "npfloat"][k % 3]), ctx)
        for conv in ([v for v in case["lon"] if 0 <= v <= 360], [v for v in case["lon"] if -180 <= v <= 180]):
            check_arc(dict(case, lon=conv, lat=[0.0] * len(conv), single=True), ctx)
    form = case.get("form", "both")
    region_only = vd.longitude_continuity(None, list(region_in))
    scalar = case.get("scalar") or (["float", "0d", "npfloat", None, None, None][build.small_hash(case, 11) % 6] if lon_in.size == 1 and not lattice else None)
    if scalar and lon_in.size == 1:
        conv = {"float": float, "0d": np.array, "npfloat": np.float64}[scalar]
        lon_in, lat_in = np.array(float(lon_in.ravel()[0])), np.array(float(lat_in.ravel()[0]))  # (what the results are compared with: shape ())
        (lon, lat), region = vd.longitude_continuity([conv(float(lon_in)), conv(float(lat_in))], list(region_in))
    else:
        scalar = None
        stacked = case.get("stacked", lon_in.size > 1 and build.small_hash(case, 14) % 4 == 0)
        # "coordinates : list or array": one stacked array is the form in which the function itself returns them (finding D20)
        given = np.array([lon_in, lat_in]) if stacked else [lon_in.copy(), lat_in.copy()]
        if not stacked and lon_in.ndim == 1 and case.get("series", build.small_hash(case, 19) % 4 == 0):
            # columns of a table (grid_to_table, a CSV): pandas Series whose index counts the rows from 0
            import pandas as pd

            given = [pd.Series(lon_in.copy()), pd.Series(lat_in.copy())]
            ctx.label("coordinates_as_series")
        (lon, lat), region = vd.longitude_continuity(given, list(region_in))
        if stacked:
            ctx.label("coordinates_as_one_array")
    ctx.check(np.array_equal(np.asarray(region_only), np.asarray(region)),
              "region differs with and without coordinates: %r vs %r", region_only, region)
    ctx.check(len(region) == 4, "returned region must have 4 values")
    W2, E2, S2, N2 = [float(v) for v in region]
    ctx.check(S2 == region_in[2] and N2 == region_in[3], "latitude bounds changed: %r -> %r", region_in, list(region))
    ctx.check(W2 <= E2, "returned region has W > E: %r -> [%r, %r]", region_in[:2], W2, E2)
    full = width == F360
    if full:
        ctx.check((W2, E2) == (0.0, 360.0), "full-globe input %r must become (0, 360), got (%r, %r)", region_in[:2], W2, E2)
    else:
        ctx.check(cong(W2, W, tol), "returned W %r is not congruent to the input W %r", W2, W)
        ctx.check(cong(E2, E, tol), "returned E %r is not congruent to the input E %r", E2, E)
        ctx.check(abs((Fraction(E2) - Fraction(W2)) - width) <= tol,
                  "returned width %r != eastward angle from W to E %r (input %r)", E2 - W2, float(width), region_in[:2])
    # convention of the returned region
    ctx.check(-180 <= W2 and E2 <= 360 and not (W2 < 0 and E2 > 180), "returned bounds [%r, %r] fit no convention", W2, E2)
    lon = np.asarray(lon)
    lat = np.asarray(lat)
    ctx.check(lon.shape == lon_in.shape and lat.shape == lat_in.shape, "coordinate shapes changed")
    ctx.check(np.array_equal(lat, lat_in), "latitudes were modified")
    if W2 < 0:
        in_conv = np.all((lon >= -180) & (lon <= 180))
    elif E2 > 180:
        in_conv = np.all((lon >= 0) & (lon <= 360))
    else:
        in_conv = np.all((lon >= 0) & (lon <= 360)) or np.all((lon >= -180) & (lon <= 180))
    ctx.check(in_conv, "returned longitudes are not in the convention of the returned region [%r, %r]: %r", W2, E2, lon.ravel()[:8])
    inside = vd.inside((lon, lat), region)
    # all probe latitudes are inside [S, N] by construction
    flat_in, flat_out, flat_inside = lon_in.ravel(), lon.ravel(), np.asarray(inside).ravel()
    exempt = 0
    for k in range(flat_in.size):
        ctx.check(cong(flat_out[k], flat_in[k], tol), "longitude %r became %r (not congruent modulo 360)", flat_in[k], flat_out[k])
        ang = fmod360(Fraction(float(flat_in[k])) - Fraction(W))
        if not lattice and (min(ang, F360 - ang) <= TOL or abs(ang - width) <= TOL):
            exempt += 1
            continue
        expected = ang <= width
        if bool(flat_inside[k]) != expected:
            raise Violation("region %r -> [%r, %r]: longitude %r -> %r is %s the returned region but angularly %s the original arc "
                            "(eastward angle %s, width %s)" % (region_in[:2], W2, E2, flat_in[k], flat_out[k],
                                                               "inside" if flat_inside[k] else "outside",
                                                               "inside" if expected else "outside", float(ang), float(width)))
    seams = [Fraction(v) for v in (-180, 0, 180, 360)]
    Wf = Fraction(W)
    touches = any(fmod360(s - Wf) <= width for s in seams)
    ctx.label("full_globe" if full else "zero_width" if width == 0 else "arc")
    ctx.label("W>E" if W > E else "W<=E", "conv180" if W2 < 0 else "conv360", *(["point_as_" + scalar] if scalar else []), *(["longitudes_" + case["order"]] if case.get("order") else []))
    if touches:
        ctx.label("touches_seam")
    if any(Fraction(E) == s for s in seams):
        ctx.label("east_on_seam")
    if exempt:
        ctx.label("some_probes_exempt")
    ctx.nt(touches or W > E)


def _lattice_values(tier):
    vals = set(range(-180, 361, 5))
    if tier == "thorough":
        for seam in (-180, 0, 180, 360):
            for k in range(-4, 5):
                if -180 <= seam + k <= 360:
                    vals.add(seam + k)
    return sorted(vals)


def lattice(tier):
    vals = _lattice_values(tier)
    probes = [float(v) for v in vals]
    lat = [((i * 37) % 181) - 90.0 for i in range(len(probes))]
    for W in vals:
        for E in vals:
            if abs(E - W) > 360:
                continue
            yield dict(region=[W, E, -90, 90], lon=probes, lat=lat, lattice=True, int_region=(W + E) % 2 == 0)


@st.composite
def arc_cases(draw):
    lon_val = st.one_of(st.sampled_from([-180.0, 0.0, 180.0, 360.0, -179.999999, 359.999999, 1e-7, -1e-7]),
                        gen.finite(-180, 360), st.integers(-180, 360).map(float))
    W = draw(lon_val)
    kind = draw(st.sampled_from(["free", "narrow", "wide", "same", "wrap", "tiny"]))
    if kind == "free":
        E = draw(lon_val)
    elif kind == "tiny":
        # survey-scale regions: widths of 1e-9 ... 1e-2 degrees anywhere on the globe
        E = W + draw(st.sampled_from([1e-9, 1e-6, 1e-4, 1e-3, 3e-3, 1e-2]))
    elif kind == "narrow":
        E = W + draw(gen.finite(0, 5))
    elif kind == "wide":
        E = W + draw(gen.finite(300, 360))
    elif kind == "same":
        E = W
    else:
        E = W - draw(gen.finite(0, 360))
    E = min(360.0, max(-180.0, E))
    if abs(E - W) > 360:
        E = W
    S = draw(gen.finite(-90, 90))
    N = draw(gen.finite(S, 90))
    n = draw(st.integers(1, 24))
    lons = draw(st.lists(st.one_of(lon_val, st.sampled_from([W, E])), min_size=n, max_size=n))
    conv = draw(st.sampled_from(["mixed", "mixed", "only360", "only180"]))
    if conv == "only360":
        lons = [v if 0 <= v <= 360 else v + 360 for v in lons]
    elif conv == "only180":
        lons = [v if -180 <= v <= 180 else v - 360 for v in lons]
    lats = draw(st.lists(gen.finite(S, N), min_size=n, max_size=n))
    shape = [n]
    if n % 2 == 0 and draw(st.booleans()):
        shape = [2, n // 2]
    elif n % 3 == 0 and draw(st.booleans()):
        shape = [3, n // 3]
    # west-to-east tracks and sorted tables: every row (or the whole array) in ascending or descending order, rows starting at different longitudes
    order = draw(st.sampled_from(["as_drawn", "as_drawn", "rows_ascending", "rows_descending", "all_ascending"]))
    if order != "as_drawn":
        width = shape[-1]
        rows = [sorted(lons[i:i + width], reverse=(order == "rows_descending")) for i in range(0, n, width)]
        lons = [v for row in (sorted(rows) if order == "all_ascending" and len(shape) == 1 else rows) for v in row]
    return dict(region=[W, E, S, N], lon=lons, lat=lats, lon_shape=shape, order=order)


@st.composite
def invalid_cases(draw):
    kind = draw(st.sampled_from(["W_low", "E_high", "W_high", "E_low", "too_wide", "too_wide_reversed", "S_low", "N_high", "lon_high", "lon_low", "lat_high", "lat_low"]))
    region = [draw(gen.finite(-180, 170)), 0.0, draw(gen.finite(-90, 0)), draw(gen.finite(0, 90))]
    region[1] = region[0] + draw(gen.finite(0, 10))
    lon, lat = [region[0]], [region[2]]
    big = draw(st.one_of(gen.finite(1e-6, 1e4), st.sampled_from([1.0, 0.5, 360.0])))
    if kind == "W_low":
        region[0] = -180 - big
    elif kind == "E_high":
        region[1] = 360 + big
    elif kind == "W_high":
        region[0], region[1] = 360 + big, 360 + big
    elif kind == "E_low":
        region[0], region[1] = -180 - big, -180 - big
    elif kind == "too_wide":
        region[0], region[1] = -180.0 + draw(gen.finite(0, 100)), 0.0
        region[1] = min(360.0, region[0] + 360 + draw(gen.finite(0.5, 100)))
        if region[1] - region[0] <= 360:
            region[0] = -180.0
            region[1] = 360.0
    elif kind == "too_wide_reversed":
        # both bounds are legal longitudes but W lies more than a full turn east of E (e.g. [360, -10], [185, -180])
        region[1] = -draw(gen.finite(0.5, 180))
        region[0] = min(360.0, region[1] + 360 + draw(gen.finite(0.5, 100)))
        if region[0] - region[1] <= 360:
            region[0], region[1] = 360.0, -180.0
    elif kind == "S_low":
        region[2] = -90 - big
    elif kind == "N_high":
        region[3] = 90 + big
    elif kind == "lon_high":
        lon = [region[0], 360 + big]
        lat = [region[2], region[2]]
    elif kind == "lon_low":
        lon = [-180 - big, region[0]]
        lat = [region[2], region[2]]
    elif kind == "lat_high":
        lat = [90 + big]
    elif kind == "lat_low":
        lat = [-90 - big]
    return dict(kind=kind, region=region, lon=lon, lat=lat)


def check_invalid(case, ctx):
    region = case["region"]
    coords = [np.array(case["lon"], dtype="float64"), np.array(case["lat"], dtype="float64")]
    try:
        result = vd.longitude_continuity(coords, region)
    except Exception:  # noqa: BLE001 - "rejected": any error
        ctx.label(case["kind"])
        ctx.nt(True)
        return
    raise Violation("out-of-range input (%s) accepted: region %r, coordinates %r -> %r" % (case["kind"], region, case["lon"], result))


# ---------------------------------------------------------------- large longitude arrays (vectorised oracle on quarter-degree values)
@st.composite
def large_cases(draw):
    w = draw(st.integers(-720, 1440)) / 4.0
    width = draw(st.one_of(st.integers(0, 1436), st.sampled_from([1440]))) / 4.0
    conv = draw(st.sampled_from(["0_360", "180", "mixed"]))
    return dict(W=max(-180.0, min(w, 360.0)), width=width, n=draw(st.sampled_from([20000, 100000])), seed=draw(st.integers(0, 10**6)), conv=conv, shape2d=draw(st.booleans()))


def check_large(case, ctx):
    """10^4 - 10^5 longitudes on the quarter-degree lattice (all arithmetic exact in floating point), in one or in mixed conventions"""
    W, width = case["W"], case["width"]
    E = W + width
    if E > 360.0:
        W, E = W - 360.0, E - 360.0
    if W < -180.0 or E > 360.0 or (W < 0 and E > 180 and width < 360):
        ctx.skip("not_representable")
    rng = np.random.RandomState(case["seed"])  # a pure function of the generated case
    n = case["n"]
    if case["conv"] == "0_360":
        lon = rng.randint(0, 1441, size=n) / 4.0
    elif case["conv"] == "180":
        lon = rng.randint(-720, 721, size=n) / 4.0
    else:
        lon = rng.randint(-720, 1441, size=n) / 4.0
    lat = rng.randint(-80, 81, size=n) / 1.0
    if case["shape2d"]:
        lon, lat = lon.reshape(8, -1), lat.reshape(8, -1)
    region = [W, E, -80.0, 80.0]
    (lon2, lat2), reg2 = vd.longitude_continuity([lon.copy(), lat.copy()], list(region))
    lon2 = np.asarray(lon2)
    W2, E2 = float(reg2[0]), float(reg2[1])
    ctx.check(lon2.shape == lon.shape and np.array_equal(np.asarray(lat2), lat), "shapes or latitudes changed")
    ctx.check(np.all(np.mod(lon2 - lon, 360.0) == 0), "returned longitudes are not congruent to the given ones modulo 360")
    full = width == 360.0
    if full:
        ctx.check((W2, E2) == (0.0, 360.0), "full-globe input must become (0, 360), got (%r, %r)", W2, E2)
    else:
        ctx.check(E2 - W2 == width and np.mod(W2 - W, 360.0) == 0, "returned arc [%r, %r] is not the given arc [%r, %r]", W2, E2, W, E)
    inside = np.asarray(vd.inside((lon2, np.asarray(lat2)), reg2))
    ang = np.mod(lon - W, 360.0)
    exp = (ang <= width) | full
    if not np.array_equal(inside, exp):
        k = np.argwhere(inside != exp)[0]
        raise Violation("arc [%r, %r] -> [%r, %r], %d longitudes (%s): longitude %r -> %r is %s the returned region but angularly %s the arc" % (
            W, E, W2, E2, n, case["conv"], float(lon[tuple(k)]), float(lon2[tuple(k)]), "inside" if inside[tuple(k)] else "outside", "inside" if exp[tuple(k)] else "outside"))
    ctx.label(case["conv"], "n%d" % n, "full" if full else "arc")
    ctx.nt(0 < width < 360)


SUBCHECKS = [
    Sub("lattice", check_arc, enumerate=lattice, shards_quick=16,
        doc="exhaustive (W, E) lattice (5 degrees; thorough adds 1 degree around seams) with probe longitudes on the same lattice; exact oracle"),
    Sub("random_arcs", check_arc, strategy=arc_cases(), quick=1500, thorough=8000,
        doc="off-lattice bounds/longitudes incl. values a hair from the seams, any latitude bounds, 1-D/2-D arrays"),
    Sub("invalid", check_invalid, strategy=invalid_cases(), quick=300, thorough=1000, shards_thorough=2,
        doc="regions or coordinates outside the accepted degree ranges, or wider than 360, are rejected"),
    Sub("large", check_large, strategy=large_cases(), quick=12, thorough=80, heavy=True,
        doc="20 000 - 100 000 longitudes on the quarter-degree lattice, single or mixed conventions, 1-D or 2-D: congruence and angular membership by exact vectorised arithmetic"),
]
