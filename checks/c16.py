"""C16 - hull masking and grid projection keep values only where data constrain them."""
from fractions import Fraction

import numpy as np
import verde as vd
import xarray as xr
from hypothesis import strategies as st

from vlib import blocks, build, gen
from vlib.oracles import convex_hull, exact, hull_classify
from vlib.runner import Sub, Violation

PROPERTY = "C16"
RULE = ("convexhull_mask: integer-lattice data clouds with integer and half-integer queries (exact orientation tests decide inside/boundary/"
        "outside), and free-float clouds; each placed by scale 1e-3..1e7 (per-axis aspect) and offsets up to 100x scale; array and grid forms, "
        "optional projection.  project_grid: evenly spaced grids 3..7 x 3..7 (non-square favoured) with distinct values, named or not, with or "
        "without interior NaN holes, per-axis affine projections (incl. negative scale), monotone non-linear ones and rotations, three methods, "
        "antialias on/off, explicit region/spacing/shape; non-trivial = hull with >= 5 vertices or scale >= 1e5 (mask), a non-square grid (projection); "
        "distinct = SHA-1 of the case")
ASSUMPTIONS = [
    "data hulls are non-degenerate (at least 3 non-collinear points); points exactly on the hull boundary may go either way",
    "free-float clouds and projected hulls: points within 1e-9 (mask) / 1e-6 (project_grid) of the hull boundary, relative to the cloud diameter, are exempt",
    "the range bound under antialiasing is asserted for 'nearest' and 'linear' only (a Clough-Tocher cubic legitimately overshoots)",
    "outer-ring nodes of a projected grid may be NaN (they lie on the hull boundary)",
]


# ---------------------------------------------------------------- convexhull_mask
@st.composite
def hull_cases(draw):
    lattice = draw(st.booleans())
    n = draw(st.integers(3, 25))
    if lattice:
        cells = draw(st.lists(st.tuples(st.integers(-10, 10), st.integers(-10, 10)), min_size=n, max_size=n, unique=True))
        data = [[2 * a, 2 * b] for a, b in cells]  # doubled: half-integer queries become odd integers
        m = draw(st.integers(1, 30))
        query = draw(st.lists(st.tuples(st.integers(-24, 24), st.integers(-24, 24)), min_size=m, max_size=m))
        query = [list(q) for q in query]
    else:
        cells = draw(st.lists(st.tuples(st.integers(0, 11), st.integers(0, 11)), min_size=n, max_size=n, unique=True))
        data = [[a + gen.JITTER[(3 * a + b) % 12], b + gen.JITTER[(a + 5 * b + 2) % 12]] for a, b in cells]
        m = draw(st.integers(1, 30))
        query = [[draw(gen.finite(-2, 14)), draw(gen.finite(-2, 14))] for _ in range(m)]
    structure = draw(st.sampled_from([None, None, None, "full_grid", "full_grid_north_up", "tilted_lines", "tilted_lines"]))
    if structure:
        # gridded data fed back in, and equally sampled survey lines that climb a little along the line (a sheared lattice whose hull is a
        # parallelogram, not its bounding box): stored line by line; on the doubled integer lattice
        lattice = True
        p, r = draw(st.integers(2, 6)), draw(st.integers(2, 5))
        sep = p + draw(st.integers(0, 3))  # line separation; the total climb along a line (p - 1) stays below it
        tilt = 1 if structure == "tilted_lines" else 0
        rows = range(r) if structure != "full_grid_north_up" else range(r - 1, -1, -1)
        data = [[2 * a, 2 * (sep * b + tilt * a)] for b in rows for a in range(p)]
        n = len(data)
        m = draw(st.integers(5, 30))
        query = [list(q) for q in draw(st.lists(st.tuples(st.integers(-3, 2 * p + 1), st.integers(-3, 2 * (sep * (r - 1) + p) + 1)), min_size=m, max_size=m))]
    # re-occupied stations: some positions occur more than once (the hull does not change), preferably extreme ones
    if draw(st.integers(0, 2)) == 0:
        extreme = sorted(range(len(data)), key=lambda i: (data[i][0], data[i][1]))
        for i in draw(st.lists(st.sampled_from([extreme[0], extreme[-1]] + list(range(len(data)))), min_size=1, max_size=3)):
            data = data + [list(data[i])]
        n = len(data)
    k = draw(st.integers(-3, 7))
    scale = 10.0 ** k
    aspect = draw(st.sampled_from([1.0, 1.0, 0.1, 10.0, 3.0]))
    off = draw(st.sampled_from([0.0, 1.0, -10.0, 100.0, -100.0]))
    return dict(lattice=lattice, structure=structure, data=data, query=query, scale=scale, aspect=aspect, offset=[off * scale, -off * scale * aspect],
                form=draw(st.sampled_from(["array", "array2d", "grid"])), proj=draw(st.sampled_from([None, None, [2.0, 0.5], [-1.0, 3.0], "polar", [0.8, -0.6, 0.6, 0.8], [1.0, 0.7, 0.0, 1.0], [0.5, 2.0, -1.5, 0.25]])),
                dshape=draw(st.sampled_from(blocks.shape_options(n))), orders=draw(build.orders_strategy()), extra=draw(st.sampled_from([0, 0, 1, 2])), qextra=draw(st.sampled_from([0, 0, 1])))


def place(pts, case):
    p = np.asarray(pts, dtype="float64")
    div = 2.0 if case["lattice"] else 1.0
    return np.column_stack([case["offset"][0] + case["scale"] * p[:, 0] / div, case["offset"][1] + case["scale"] * case["aspect"] * p[:, 1] / div])


def check_hull(case, ctx):
    if case["lattice"]:
        exact_data = [(int(a), int(b)) for a, b in case["data"]]
        exact_q = [(int(a), int(b)) for a, b in case["query"]]
    else:
        exact_data = [(Fraction(float(a)), Fraction(float(b))) for a, b in case["data"]]
        exact_q = [(Fraction(float(a)), Fraction(float(b))) for a, b in case["query"]]
    hull = convex_hull(exact_data)
    if len(hull) < 3:
        ctx.skip("degenerate_hull")
    d = place(case["data"], case)
    lay = build.Lay(case.get("orders"))
    # further coordinates after easting and northing are documented as ignored
    dcoords = (lay(d[:, 0], case["dshape"]), lay(d[:, 1], case["dshape"])) + tuple(lay(1e3 + 7.0 * np.arange(d.shape[0]) * (j + 1), case["dshape"]) for j in range(case.get("extra", 0)))
    proj = None
    if case["proj"] == "polar":
        # non-linear and non-separable: easting is an angle, northing a radius (the hull is taken in the projected plane)
        e0, n0 = float(d[:, 0].min()), float(d[:, 1].min())
        se, sn = float(np.ptp(d[:, 0])) or 1.0, float(np.ptp(d[:, 1])) or 1.0

        def proj(e, n):
            ang = 2.5 * (np.asarray(e) - e0) / se
            rad = 1.0 + (np.asarray(n) - n0) / sn
            return rad * np.cos(ang), rad * np.sin(ang)
    elif case["proj"] is not None and len(case["proj"]) == 4:
        # invertible linear map that mixes easting and northing (rotation, shear): membership in the convex hull is invariant under it, the oracle
        # keeps working in the unprojected plane; coordinates are taken relative to the cloud's corner so that large offsets do not cancel
        pa, pb, pc, pd = case["proj"]
        e0, n0 = float(d[:, 0].min()), float(d[:, 1].min())
        proj = lambda e, n: (pa * (np.asarray(e) - e0) + pb * (np.asarray(n) - n0), pc * (np.asarray(e) - e0) + pd * (np.asarray(n) - n0))  # noqa: E731
    elif case["proj"] is not None:
        ax, ay = case["proj"]
        proj = lambda e, n: (ax * np.asarray(e), ay * np.asarray(n))  # noqa: E731
    kw = {} if proj is None else dict(projection=proj)
    polar = case["proj"] == "polar"
    if polar:
        # the hull lives in the projected plane: recompute the exact hull from the projected float coordinates
        pe_, pn_ = proj(d[:, 0], d[:, 1])
        exact_data = [(Fraction(float(a)), Fraction(float(b))) for a, b in zip(pe_, pn_)]
        hull = convex_hull(exact_data)
        if len(hull) < 3:
            ctx.skip("degenerate_hull")
        qp = place(case["query"], case)
        qe_, qn_ = proj(qp[:, 0], qp[:, 1])
        exact_q = [(Fraction(float(a)), Fraction(float(b))) for a, b in zip(qe_, qn_)]
    diam = max(float(max(p[0] for p in exact_data) - min(p[0] for p in exact_data)), float(max(p[1] for p in exact_data) - min(p[1] for p in exact_data)))
    margin = 0.0 if (case["lattice"] and not polar) else 1e-9 * diam
    if case["form"] == "grid" and not polar:
        # queries on a regular grid covering the cloud
        qe = np.linspace(d[:, 0].min() - 0.1 * case["scale"], d[:, 0].max() + 0.1 * case["scale"], 6)
        qn = np.linspace(d[:, 1].min() - 0.1 * case["scale"] * case["aspect"], d[:, 1].max() + 0.1 * case["scale"] * case["aspect"], 5)
        ee, nn = np.meshgrid(qe, qn)
        grid = xr.Dataset({"v": (("northing", "easting"), np.arange(30, dtype="float64").reshape(5, 6) + 1)}, coords={"easting": qe, "northing": qn})
        out = vd.convexhull_mask(dcoords, grid=grid, **kw)
        arr = np.asarray(vd.convexhull_mask(dcoords, coordinates=(ee, nn), **kw))
        ctx.check(arr.shape == (5, 6) and arr.dtype == bool, "array form must give a boolean mask of the query shape")
        got = out["v"].values
        ctx.check(np.array_equal(np.isnan(got), ~arr), "the grid form blanks different cells than the array form marks False")
        ctx.check(np.array_equal(got[arr], grid["v"].values[arr]), "the grid form changed values it kept")
        # judge the grid nodes too (free-float style, mapped back to cloud units)
        div = 2.0 if case["lattice"] else 1.0
        back = [(Fraction(float((x - case["offset"][0]) / case["scale"] * div)), Fraction(float((y - case["offset"][1]) / (case["scale"] * case["aspect"]) * div)))
                for x, y in zip(ee.ravel(), nn.ravel())]
        hull_f = [(Fraction(a), Fraction(b)) for a, b in hull]
        flat = arr.ravel()
        for k, p in enumerate(back):
            state, dist = hull_classify(p, hull_f)
            if abs(dist) <= 1e-6 * diam:
                continue
            if bool(flat[k]) != (state == "in"):
                raise Violation("grid node %d is %s the hull (distance %.3g) but mask says %r" % (k, state, dist, bool(flat[k])))
        ctx.label("grid_form")
    else:
        q = place(case["query"], case)
        qshape = [len(case["query"])]
        if case["form"] == "array2d":
            qshape = blocks.shape_options(len(case["query"]))[-1]
        qextra = tuple(lay(-5e2 + 3.0 * np.arange(q.shape[0]), qshape) for _ in range(case.get("qextra", 0)))
        mask = np.asarray(vd.convexhull_mask(dcoords, coordinates=(lay(q[:, 0], qshape), lay(q[:, 1], qshape)) + qextra, **kw))
        ctx.check(mask.shape == tuple(qshape) and mask.dtype == bool, "mask must be boolean with the query's shape")
        flat = mask.ravel()
        counts = {"in": 0, "out": 0, "on": 0}
        for k, p in enumerate(exact_q):
            state, dist = hull_classify(p, hull)
            if state == "on" or abs(dist) <= margin:
                counts["on"] += 1
                continue
            counts[state] += 1
            if bool(flat[k]) != (state == "in"):
                raise Violation("query %r is strictly %s the convex hull of the data (distance %.3g in cloud units) but the mask says %r "
                                "(scale %g, aspect %g, offset %r, projection %r)" % (case["query"][k], "inside" if state == "in" else "outside", dist,
                                                                                   bool(flat[k]), case["scale"], case["aspect"], case["offset"], case["proj"]))
        for s, c in counts.items():
            if c:
                ctx.label("query_" + s)
    ctx.label("lattice" if case["lattice"] else "free", "proj" if proj else "noproj", "scale1e%d" % int(np.log10(case["scale"])), "structure_%s" % (case.get("structure") or "none"))
    ctx.nt(len(hull) >= 5 or case["scale"] >= 1e5)


# ---------------------------------------------------------------- project_grid
def make_proj(desc):
    kind = desc["kind"]
    if kind == "affine":
        ax, bx, ay, by = desc["ax"], desc["bx"], desc["ay"], desc["by"]
        return lambda e, n: (ax * np.asarray(e) + bx, ay * np.asarray(n) + by)
    if kind == "cubic":
        c = desc["c"]
        return lambda e, n: (np.asarray(e) + np.asarray(e) ** 3 / c, np.asarray(n) + np.asarray(n) ** 3 / c)
    if kind == "rotate":
        t = desc["t"]
        return lambda e, n: (np.cos(t) * np.asarray(e) - np.sin(t) * np.asarray(n), np.sin(t) * np.asarray(e) + np.cos(t) * np.asarray(n))
    raise ValueError(kind)


@st.composite
def proj_cases(draw):
    nr, nc = draw(st.integers(3, 7)), draw(st.integers(3, 7))
    w, s = draw(st.sampled_from([0.0, -20.0, 100.0])), draw(st.sampled_from([0.0, -20.0, 100.0]))
    de, dn = draw(st.sampled_from([1.0, 0.5, 2.0, 10.0])), draw(st.sampled_from([1.0, 0.5, 2.0, 10.0]))
    kind = draw(st.sampled_from(["affine", "affine", "cubic", "rotate"]))
    if kind == "affine":
        nz = st.sampled_from([1.0, 2.0, 0.5, -1.0, -3.0, 111.0])
        desc = dict(kind=kind, ax=draw(nz), bx=draw(st.sampled_from([0.0, 5.0, -100.0])), ay=draw(nz), by=draw(st.sampled_from([0.0, 7.0, 1000.0])))
    elif kind == "cubic":
        desc = dict(kind=kind, c=draw(st.sampled_from([1e3, 1e4, 1e6])))
    else:
        desc = dict(kind=kind, t=draw(st.sampled_from([0.3, 0.785, 1.2, -0.5])))
    holes = []
    hole_kind = draw(st.sampled_from(["none", "interior", "corner", "edge", "line"]))
    if hole_kind == "interior" and nr >= 4 and nc >= 4:
        holes = draw(st.lists(st.tuples(st.integers(1, nr - 2), st.integers(1, nc - 2)), min_size=1, max_size=3, unique=True))
        holes = [list(h) for h in holes]
    elif hole_kind == "corner" and nr >= 4 and nc >= 4:
        # a block of missing values covering a corner of the grid: the hull of the data loses that corner
        hr, hc = draw(st.integers(1, 2)), draw(st.integers(1, 2))
        top, right = draw(st.booleans()), draw(st.booleans())
        holes = [[(nr - 1 - i) if top else i, (nc - 1 - j) if right else j] for i in range(hr) for j in range(hc)]
    elif hole_kind == "line" and nr >= 4 and nc >= 4:
        # a complete interior row or column of missing values (a lost scan line): the grid keeps its shape
        if draw(st.booleans()):
            i = draw(st.integers(1, nr - 2))
            holes = [[i, j] for j in range(nc)]
        else:
            j = draw(st.integers(1, nc - 2))
            holes = [[i, j] for i in range(nr)]
    elif hole_kind == "edge" and nr >= 4 and nc >= 4:
        j = draw(st.integers(1, nc - 2))
        holes = [[0, j]] if draw(st.booleans()) else [[draw(st.integers(1, nr - 2)), nc - 1]]
    return dict(nr=nr, nc=nc, w=w, s=s, de=de, dn=dn, projection=desc, holes=holes, method=draw(st.sampled_from(["nearest", "linear", "cubic"])),
                antialias=draw(st.booleans()), name=draw(st.sampled_from([None, "topo", "scalars"])), seed=draw(st.integers(0, 10**6)),
                kw=draw(st.sampled_from(["none", "none", "shape", "spacing", "region"])), field=draw(st.sampled_from(["random", "affine"])))


def check_proj(case, ctx):
    nr, nc = case["nr"], case["nc"]
    east = case["w"] + case["de"] * np.arange(nc)
    north = case["s"] + case["dn"] * np.arange(nr)
    ee, nn = np.meshgrid(east, north)
    if case["field"] == "affine":
        values = 3.0 + 0.5 * ee - 0.25 * nn
    else:
        rng = np.random.RandomState(case["seed"])  # deterministic function of the generated case
        values = rng.permutation(nr * nc).astype("float64").reshape(nr, nc) + 10.0
    vals = values.copy()
    for i, j in case["holes"]:
        vals[i, j] = np.nan
    extra_coords = {}
    if build.small_hash(case, 18) % 3 == 0:
        # a grid as gridder.grid(extra_coords=...) / make_xarray_grid(extra_coords_names=...) hands it on: with a non-dimension coordinate (observation height)
        extra_coords = {"upward": (("northing", "easting"), np.full(vals.shape, 1200.0))}
    grid = xr.DataArray(vals, coords={"northing": north, "easting": east, **extra_coords}, dims=("northing", "easting"), name=case["name"])
    desc = case["projection"]
    proj = make_proj(desc)
    pe, pn = proj(ee, nn)
    have = ~np.isnan(vals)
    data_region = [float(pe[have].min()), float(pe[have].max()), float(pn[have].min()), float(pn[have].max())]
    kw = {}
    exp_shape = (nr, nc)
    exp_region = data_region
    if case["kw"] == "shape":
        exp_shape = (nr + 2, nc + 1)
        kw["shape"] = exp_shape
    elif case["kw"] == "spacing":
        sp = ((data_region[3] - data_region[2]) / (nr + 1), (data_region[1] - data_region[0]) / (nc + 2))
        kw["spacing"] = sp
        exp_shape = (nr + 2, nc + 3)
    elif case["kw"] == "region":
        pad_e, pad_n = 0.5 * (data_region[1] - data_region[0]), 0.25 * (data_region[3] - data_region[2])
        exp_region = [data_region[0] - pad_e, data_region[1] + pad_e, data_region[2] - pad_n, data_region[3] + pad_n]
        kw["region"] = tuple(exp_region)
        # keep the requested grid at least as fine as the input sampling (a coarser request together with antialiasing leaves too few
        # block means to triangulate: second symptom of known finding D12, excluded by construction)
        exp_shape = (2 * nr, 2 * nc)
        kw["shape"] = exp_shape
    # "method : string or Verde gridder": the same interpolators handed over as objects (the deprecated ScipyGridder included, which
    # can fill the outside of SciPy's triangulation with a number - the hull mask of project_grid still has to blank it)
    mform = ["string", "string", "object", "scipygridder", "scipygridder_fill"][build.small_hash(case, 10) % 5]
    method_arg = case["method"]
    if mform == "object":
        method_arg = {"nearest": vd.KNeighbors, "linear": vd.Linear, "cubic": vd.Cubic}[case["method"]]()
    elif mform.startswith("scipygridder"):
        extra = dict(extra_args=dict(fill_value=float(np.nanmean(vals)))) if mform.endswith("fill") and case["method"] != "nearest" else {}
        method_arg = build.quiet(vd.ScipyGridder, method=case["method"], **extra)
    try:
        out = build.quiet(vd.project_grid, grid, proj, method=method_arg, antialias=case["antialias"], **kw)
    except Exception as exc:  # noqa: BLE001 - re-raised unless it is the narrow class of known finding D12
        if type(exc).__name__ == "QhullError" and case["antialias"] and case["method"] in ("linear", "cubic"):
            try:
                vd.project_grid(grid, proj, method=case["method"], antialias=False, **kw)
            except Exception:  # noqa: BLE001
                raise exc from None
            # the same call succeeds without antialiasing: the block averaging left too few points to triangulate
            ctx.known("D12", "SciPy's triangulation raises on the block-averaged points (succeeds with antialias=False)")
        raise
    ctx.check(isinstance(out, xr.DataArray), "project_grid must return a DataArray")
    ctx.check(out.name == (case["name"] or "scalars"), "result is named %r, input was %r", out.name, case["name"])
    ctx.check(out.dims == ("northing", "easting"), "result dims %r", out.dims)
    ctx.check(out.shape == exp_shape, "result shape %r, expected %r (%s)", out.shape, exp_shape, case["kw"])
    oe, on = out.coords["easting"].values, out.coords["northing"].values
    span = max(exp_region[1] - exp_region[0], exp_region[3] - exp_region[2])
    ctx.check(abs(oe[0] - exp_region[0]) <= 1e-9 * span and abs(oe[-1] - exp_region[1]) <= 1e-9 * span
              and abs(on[0] - exp_region[2]) <= 1e-9 * span and abs(on[-1] - exp_region[3]) <= 1e-9 * span,
              "result spans [%r, %r] x [%r, %r], expected the region %r", oe[0], oe[-1], on[0], on[-1], exp_region)
    ctx.check(np.allclose(np.diff(oe), (oe[-1] - oe[0]) / (oe.size - 1), rtol=1e-9, atol=0) and np.allclose(np.diff(on), (on[-1] - on[0]) / (on.size - 1), rtol=1e-9, atol=0),
              "result grid is not regular")
    res = out.values
    # hull of the projected data points (exact on the float coordinates)
    pts = [(Fraction(float(a)), Fraction(float(b))) for a, b in zip(pe[have], pn[have])]
    hull = convex_hull(pts)
    diam = max(data_region[1] - data_region[0], data_region[3] - data_region[2])
    n_in = n_out = n_d12 = 0
    block_diag = float(np.hypot((oe[-1] - oe[0]) / (oe.size - 1), (on[-1] - on[0]) / (on.size - 1)))
    for i in range(res.shape[0]):
        for j in range(res.shape[1]):
            state, dist = hull_classify((exact(oe[j], "output grid coordinate"), exact(on[i], "output grid coordinate")), hull)
            if abs(dist) <= 1e-6 * diam or state == "on":
                continue
            if state == "out":
                n_out += 1
                ctx.check(np.isnan(res[i, j]), "node (%r, %r) lies outside the convex hull of the projected data but holds %r", oe[j], on[i], res[i, j])
            else:
                n_in += 1
                if (not np.isfinite(res[i, j])) and case["antialias"] and case["method"] in ("linear", "cubic") and dist <= block_diag:
                    # open known finding D12: the block-averaged points the interpolator sees have a smaller hull than the data
                    n_d12 += 1
                    continue
                ctx.check(np.isfinite(res[i, j]), "node (%r, %r) lies inside the convex hull of the projected data (distance %.3g) but is %r (%s, antialias=%r)",
                          oe[j], on[i], dist, res[i, j], case["method"], case["antialias"])
    finite = res[np.isfinite(res)]
    lo, hi = np.nanmin(vals), np.nanmax(vals)
    if case["method"] in ("nearest", "linear") and finite.size:
        tol = 1e-9 * max(abs(lo), abs(hi), 1.0)
        ctx.check(finite.min() >= lo - tol and finite.max() <= hi + tol, "values [%r, %r] leave the range of the input [%r, %r] (%s, antialias=%r)",
                  float(finite.min()), float(finite.max()), float(lo), float(hi), case["method"], case["antialias"])
    # affine projection without antialiasing reproduces the original values at the projected nodes that carried data
    if desc["kind"] == "affine" and not case["antialias"] and case["kw"] == "none":
        src = vals
        if desc["ay"] < 0:
            src = src[::-1, :]
        if desc["ax"] < 0:
            src = src[:, ::-1]
        tol = 1e-9 * max(hi - lo, 1.0)
        for i in range(nr):
            for j in range(nc):
                if np.isnan(src[i, j]):
                    continue
                ring = i in (0, nr - 1) or j in (0, nc - 1)
                if np.isnan(res[i, j]) and ring:
                    continue
                if not abs(res[i, j] - src[i, j]) <= tol:
                    raise Violation("projected node (row %d, col %d) holds %r, its pre-image cell holds %r (%s, projection %r)" % (i, j, res[i, j], src[i, j], case["method"], desc))
        ctx.label("reproduces_values")
    if case["field"] == "affine" and desc["kind"] == "affine" and not case["antialias"] and case["method"] in ("linear", "cubic"):
        # an affine field stays affine under an affine map: exact reproduction everywhere inside
        inv_e = (oe - desc["bx"]) / desc["ax"]
        inv_n = (on - desc["by"]) / desc["ay"]
        exp = 3.0 + 0.5 * inv_e[None, :] - 0.25 * inv_n[:, None]
        okm = np.isfinite(res)
        # SciPy's Clough-Tocher gradients are estimated iteratively (tol 1e-6, worse without rescaling at large coordinate scales, DESIGN.md 3.1):
        # between the nodes the cubic interpolant reproduces an affine field only approximately
        rtol = 1e-9 if case["method"] == "linear" else 1e-3
        ctx.check(np.all(np.abs(res[okm] - exp[okm]) <= rtol * max(1.0, np.abs(exp).max())), "affine data are not reproduced by the %s interpolation", case["method"])
    ctx.label(desc["kind"], case["method"], "antialias" if case["antialias"] else "no_antialias", "kw_" + case["kw"], "holes" if case["holes"] else "no_holes", "method_as_" + mform, "with_extra_coordinate" if extra_coords else "plain_grid")
    if n_out:
        ctx.label("nodes_outside_hull")
    if n_d12:
        ctx.known("D12", "%d node(s) inside the hull but within one block of its boundary are NaN" % n_d12)
    ctx.nt(nr != nc)


@st.composite
def proj_reject_cases(draw):
    return dict(kind=draw(st.sampled_from(["dataset", "ndim1", "ndim3", "method"])))


def check_proj_reject(case, ctx):
    e, n = np.arange(4.0), np.arange(3.0)
    da = xr.DataArray(np.ones((3, 4)), coords={"northing": n, "easting": e}, dims=("northing", "easting"), name="a")
    ident = lambda x, y: (x, y)  # noqa: E731
    calls = {
        "dataset": lambda: vd.project_grid(da.to_dataset(), ident),
        "ndim1": lambda: vd.project_grid(da[0], ident),
        "ndim3": lambda: vd.project_grid(da.expand_dims("z"), ident),
        "method": lambda: vd.project_grid(da, ident, method="quintic"),
    }
    try:
        res = calls[case["kind"]]()
    except Exception:  # noqa: BLE001
        ctx.label(case["kind"])
        ctx.nt(True)
        return
    raise Violation("invalid project_grid call (%s) accepted: %r" % (case["kind"], res))


# ---------------------------------------------------------------- large inputs
@st.composite
def large_cases(draw):
    return dict(n=draw(st.sampled_from([300, 2000])), m=draw(st.sampled_from([20000, 100000])), seed=draw(st.integers(0, 10**6)), offset=draw(st.sampled_from([0.0, 0.0, 512000.0, -7.52e6])),
                scale=draw(st.sampled_from([1.0, 1e3, 1e-2])), form=draw(st.sampled_from(["array", "array2d", "grid"])), proj=draw(st.sampled_from([None, None, [0.8, -0.6, 0.6, 0.8], [2.0, 0.5]])))


def check_large(case, ctx):
    """tens of thousands of query points against the exact hull of the data (vectorised orientation tests; points within 1e-9 of an edge are exempt)"""
    rng = np.random.RandomState(case["seed"])  # a pure function of the generated case
    off, sc = case["offset"], case["scale"]
    # data on a dyadic lattice inside a disc-ish blob: an exact hull is cheap
    d = np.unique(rng.randint(-64, 65, size=(case["n"], 2)), axis=0).astype("float64")
    d = d[(d[:, 0] ** 2 + 1.7 * d[:, 1] ** 2) <= 64.0**2]
    if d.shape[0] < 3:
        ctx.skip("degenerate_hull")
    hull = convex_hull([(int(a), int(b)) for a, b in d])
    if len(hull) < 3:
        ctx.skip("degenerate_hull")
    h = np.array([(float(a), float(b)) for a, b in hull])
    de, dn = off + sc * d[:, 0], -off + sc * d[:, 1]
    if case["form"] == "grid":
        qx, qy = np.linspace(-70, 70, 401), np.linspace(-66, 66, 251)
        gx, gy = np.meshgrid(qx, qy)
    else:
        gx, gy = rng.uniform(-70, 70, case["m"]), rng.uniform(-66, 66, case["m"])
        if case["form"] == "array2d":
            gx, gy = gx.reshape(10, -1), gy.reshape(10, -1)
    qe, qn = off + sc * gx, -off + sc * gy
    proj = None
    if case["proj"] is not None and len(case["proj"]) == 4:
        pa, pb, pc, pd_ = case["proj"]
        proj = lambda a, b: (pa * (np.asarray(a) - off) + pb * (np.asarray(b) + off), pc * (np.asarray(a) - off) + pd_ * (np.asarray(b) + off))  # noqa: E731
    elif case["proj"] is not None:
        ax, ay = case["proj"]
        proj = lambda a, b: (ax * np.asarray(a), ay * np.asarray(b))  # noqa: E731
    kw = {} if proj is None else dict(projection=proj)
    if case["form"] == "grid":
        grid = xr.Dataset({"v": (("northing", "easting"), np.ones(gx.shape))}, coords={"easting": off + sc * qx, "northing": -off + sc * qy})
        out = vd.convexhull_mask((de, dn), grid=grid, **kw)
        mask = ~np.isnan(out["v"].values)
    else:
        mask = np.asarray(vd.convexhull_mask((de, dn), coordinates=(qe, qn), **kw))
    ctx.check(mask.shape == gx.shape, "mask shape %s for query shape %s", mask.shape, gx.shape)
    # signed distances to the hull edges in lattice units (the hull is counter-clockwise)
    ex, ey = np.roll(h[:, 0], -1) - h[:, 0], np.roll(h[:, 1], -1) - h[:, 1]
    ln = np.hypot(ex, ey)
    dist = np.min([(ex[k] * (gy - h[k, 1]) - ey[k] * (gx - h[k, 0])) / ln[k] for k in range(h.shape[0])], axis=0)
    margin = 1e-6 * 128 * (1.0 + abs(off) / (sc * 128) * 1e-3)
    sure = np.abs(dist) > margin
    exp = dist > 0
    if not np.array_equal(mask[sure], exp[sure]):
        k = np.argwhere(sure & (mask != exp))[0]
        raise Violation("query point %r of %d (lattice units %r, %r) is %s the hull of %d data points (signed distance %.3g) but the mask says %r (%s form, projection %r, offset %r, scale %r)" % (
            k.tolist(), gx.size, float(gx[tuple(k)]), float(gy[tuple(k)]), "inside" if exp[tuple(k)] else "outside", d.shape[0], float(dist[tuple(k)]), bool(mask[tuple(k)]), case["form"], case["proj"], off, sc))
    ctx.label(case["form"], "n%d" % d.shape[0], "proj" if proj else "noproj", "utm" if off else "local")
    ctx.nt(len(hull) >= 5)


# ---------------------------------------------------------------- large grids through project_grid
@st.composite
def large_proj_cases(draw):
    return dict(nr=draw(st.sampled_from([90, 150, 200])), nc=draw(st.sampled_from([131, 120, 257])), method=draw(st.sampled_from(["linear", "nearest", "cubic"])),
                ax=draw(st.sampled_from([2.0, 0.5, 111.0])), ay=draw(st.sampled_from([3.0, 0.25, 111.0])), bx=draw(st.sampled_from([0.0, 1e4])), hole=draw(st.booleans()))


def check_large_proj(case, ctx):
    """tens of thousands of nodes, increasing affine projection, no antialiasing: output node (i, j) is the projected input node (i, j), so the values come
    back unchanged wherever the input had data and every node strictly inside the hull of the data is finite"""
    nr, nc = case["nr"], case["nc"]
    east, north = 100.0 + 2.0 * np.arange(nc), -50.0 + 1.5 * np.arange(nr)
    ee, nn = np.meshgrid(east, north)
    vals = 3.0 + 0.25 * ee - 0.5 * nn  # a plane: linear and cubic interpolation reproduce it, nearest returns the node itself
    if case["hole"]:
        vals[nr // 3:nr // 3 + 4, nc // 2:nc // 2 + 5] = np.nan
    grid = xr.DataArray(vals, coords={"easting": east, "northing": north}, dims=("northing", "easting"), name="plane")
    proj = lambda e, n: (case["ax"] * np.asarray(e) + case["bx"], case["ay"] * np.asarray(n) - 7.0)  # noqa: E731
    out = vd.project_grid(grid, proj, method=case["method"], antialias=False)
    res = np.asarray(out.values)
    ctx.check(res.shape == (nr, nc), "result shape %s, expected the input's shape %s", res.shape, (nr, nc))
    ctx.check(out.name == "plane", "the name of the grid was not kept")
    have = ~np.isnan(vals)
    # interior = at least two cells away from the border of the grid and from the hole
    inner = np.zeros_like(have)
    inner[2:-2, 2:-2] = True
    if case["hole"]:
        inner[nr // 3 - 2:nr // 3 + 6, nc // 2 - 2:nc // 2 + 7] = False
    missing = inner & np.isnan(res)
    if missing.any():
        i, j = np.argwhere(missing)[0]
        raise Violation("node (row %d, column %d) of a %d x %d grid lies well inside the hull of the projected data but is NaN (%s, no antialiasing); %d such nodes" % (i, j, nr, nc, case["method"], int(missing.sum())))
    bad = inner & have & (np.abs(res - vals) > 1e-6 * np.nanmax(np.abs(vals)))
    if bad.any():
        i, j = np.argwhere(bad)[0]
        raise Violation("projected node (row %d, column %d) of a %d x %d grid holds %r, its pre-image node holds %r (%s, affine projection, no antialiasing)" % (i, j, nr, nc, float(res[i, j]), float(vals[i, j]), case["method"]))
    ctx.label(case["method"], "%dx%d" % (nr, nc), "hole" if case["hole"] else "no_hole")
    ctx.nt(True)


SUBCHECKS = [
    Sub("convexhull_mask", check_hull, strategy=hull_cases(), quick=500, thorough=3000, shards_quick=2,
        doc="mask vs exact hull membership, invariant under scale/aspect/offset placement, array vs grid form, optional projection"),
    Sub("project_grid", check_proj, strategy=proj_cases(), quick=250, thorough=1500, shards_quick=4,
        doc="name, shape, regular grid of the projected region, NaN outside / finite inside the hull, value reproduction (affine, no antialias), range bound (antialias)"),
    Sub("project_grid_rejects", check_proj_reject, strategy=proj_reject_cases(), quick=20, thorough=40, shards_thorough=1,
        doc="Datasets, non-2D arrays and unknown methods are rejected"),
    Sub("large", check_large, strategy=large_cases(), quick=8, thorough=40, heavy=True,
        doc="convexhull_mask for 20 000 - 100 000 query points / a 251 x 401 grid against the exact hull of up to 2 000 lattice points (vectorised orientation tests), with projections and UTM-sized offsets"),
    Sub("large_project_grid", check_large_proj, strategy=large_proj_cases(), quick=6, thorough=40, heavy=True,
        doc="project_grid on grids of 10 000 - 50 000 nodes (affine projection, no antialiasing, with and without a hole): shape, name, finite interior, values reproduced"),
]
