"""C07 - regular coordinates honour region, spacing, shape and registration.

Oracle: exact rational arithmetic on the float inputs (vlib/oracles.py)."""
import itertools
from fractions import Fraction

import numpy as np
import verde as vd
from hypothesis import strategies as st

from vlib import build, gen
from vlib.oracles import EPS, exact, interval_counts, line_models, match_line
from vlib.runner import Sub, Violation

PROPERTY = "C07"
RULE = ("cases are (start, stop, spacing|size, adjust, registration) tuples - an exhaustive rational lattice plus "
        "Hypothesis-generated float regions/spacings/shapes; a case is non-trivial when extent/spacing is not an "
        "integer, or pixel registration is used, or the two directions have different settings (grids), or a "
        "rejection is demanded; distinct = distinct SHA-1 of the canonical JSON case")
ASSUMPTIONS = [
    "spacings are positive and finite, shapes >= 1 (documented domain)",
    "node values are compared with 8*eps*max(|start|,|stop|) against exact rational nodes computed from the float inputs",
    "when extent/spacing is within 1e-9 (relative) of a .5 tie both neighbouring interval counts are accepted",
    "at most ~200 nodes per direction (oracle cost), behaviour is size-independent",
]


# ---------------------------------------------------------------- line_coordinates
def check_line(case, ctx):
    start, stop = case["start"], case["stop"]
    spacing, size = case.get("spacing"), case.get("size")
    adjust, pixel = case["adjust"], case["pixel"]
    kwargs = dict(adjust=adjust, pixel_register=pixel)
    if spacing is not None:
        kwargs["spacing"] = spacing
    else:
        kwargs["size"] = size
    first = vd.line_coordinates(start, stop, **kwargs)
    keep = np.array(first, copy=True)
    if isinstance(first, np.ndarray) and first.flags.writeable:
        first += 12345.678  # what a caller does to the array it got must not leak into later calls
    values = vd.line_coordinates(start, stop, **kwargs)
    ctx.check(np.array_equal(values, keep), "a second line_coordinates call with the same arguments returns different nodes after the first result was modified in place")
    models = line_models(start, stop, size=size, spacing=spacing, adjust=adjust, pixel=pixel)
    k, why = match_line(values, models, start, stop)
    if k is None:
        raise Violation("line_coordinates(%r, %r, %r) = %s does not match the exact model: %s"
                        % (start, stop, kwargs, np.array2string(np.asarray(values), threshold=8, precision=17), why))
    m = models[k]
    values = np.asarray(values)
    if not pixel:
        ctx.check(values[0] == start, "first node %r != start %r", values[0], start)
        if spacing is None or adjust == "spacing":
            if values.size > 1:
                ctx.check(values[-1] == stop, "last node %r != stop %r with the region kept", values[-1], stop)
    if values.size > 1:
        ctx.check(np.all(np.diff(values) >= 0), "nodes are not non-decreasing")
    if spacing is not None:
        ratio = (Fraction(stop) - Fraction(start)) / Fraction(spacing)
        integral = ratio.denominator == 1
        ctx.label("ratio_integer" if integral else "ratio_fractional")
        if len(models) == 2:
            ctx.label("tie")
        if ratio < Fraction(1, 2):
            ctx.label("spacing_gt_2extent")
        elif ratio < 1:
            ctx.label("spacing_gt_extent")
        ctx.nt((not integral) or pixel)
    else:
        ctx.label("size_given")
        ctx.nt(pixel or size == 1)
    ctx.label("pixel" if pixel else "gridline", "adjust_" + adjust)
    if start == stop:
        ctx.label("degenerate")
    return m


LATTICE_STARTS_Q = [-5.0, 0.0, 1.0 / 3.0, 1000.0]
LATTICE_STARTS_T = [-5.0, 0.0, 1.0 / 3.0, 1000.0, -1e6 + 1.0 / 7.0, -0.25, 123456.789, 7.0 / 11.0]


def _rationals(ps, qs):
    vals = sorted({Fraction(p, q) for p in ps for q in qs})
    return vals


def lattice(tier):
    if tier == "quick":
        starts = LATTICE_STARTS_Q
        extents = _rationals([0, 1, 2, 3, 5, 7], [1, 2, 3])[:12]
        spacings = _rationals([1, 2, 3, 5], [1, 2, 3, 4, 7])[:16]
    else:
        starts = LATTICE_STARTS_T
        extents = _rationals(range(0, 13), [1, 2, 3, 4, 5, 7, 8])
        spacings = _rationals(range(1, 13), [1, 2, 3, 4, 5, 6, 7, 8, 9, 10, 11, 16])
    for start, ext, sp in itertools.product(starts, extents, spacings):
        if ext / sp > 200:
            continue
        stop = start + float(ext)
        for adjust in ("spacing", "region"):
            for pixel in (False, True):
                yield dict(start=start, stop=stop, spacing=float(sp), adjust=adjust, pixel=pixel)


@st.composite
def line_cases(draw):
    start, stop = draw(gen.intervals())
    adjust = draw(st.sampled_from(["spacing", "region"]))
    pixel = draw(st.booleans())
    if draw(st.integers(0, 3)) == 0:
        return dict(start=start, stop=stop, size=draw(st.integers(1, 150)), adjust=adjust, pixel=pixel)
    return dict(start=start, stop=stop, spacing=draw(gen.spacing_for(start, stop)), adjust=adjust, pixel=pixel)


# ---------------------------------------------------------------- grid_coordinates
@st.composite
def grid_cases(draw):
    region = draw(gen.regions(allow_degenerate=True))
    adjust = draw(st.sampled_from(["spacing", "region"]))
    pixel = draw(st.booleans())
    case = dict(region=region, adjust=adjust, pixel=pixel)
    mode = draw(st.sampled_from(["shape", "spacing2", "spacing1"]))
    if mode == "shape":
        case["shape"] = [draw(st.integers(1, 40)), draw(st.integers(1, 40))]
    elif mode == "spacing2":
        case["spacing"] = [draw(gen.spacing_for(region[2], region[3], 60)), draw(gen.spacing_for(region[0], region[1], 60))]
    else:
        # one spacing for both directions: keep node counts bounded in both
        big = max(region[1] - region[0], region[3] - region[2])
        lo, hi = (region[0], region[1]) if big == region[1] - region[0] else (region[2], region[3])
        case["spacing"] = draw(gen.spacing_for(lo, hi, 80))
        case["spacing_form"] = draw(st.sampled_from(["scalar", "list1"]))
    case["meshgrid"] = draw(st.booleans())
    if case["meshgrid"]:
        case["extra"] = draw(st.one_of(st.none(), gen.finite(-1e4, 1e4), st.sampled_from([0.0, 0.0, 1.0, -1.0]),
                                       st.lists(st.one_of(gen.finite(-1e4, 1e4), st.just(0.0)), min_size=1, max_size=3)))
    else:
        case["extra"] = None
    case["extra_seq"] = draw(st.sampled_from(build.SEQS))
    return case


def check_grid(case, ctx):
    ints = build.plain_flag(case)
    region = build.plain(tuple(case["region"]), ints)
    region = build.numpy_ints(region, case)
    rpy = tuple(case["region"]) if not ints else build.plain(tuple(case["region"]), True)  # the same bounds as plain Python numbers, for the oracle's exact arithmetic
    kwargs = dict(adjust=case["adjust"], pixel_register=case["pixel"], meshgrid=case["meshgrid"])
    sp = case.get("spacing")
    if "shape" in case:
        kwargs["shape"] = tuple(case["shape"])
        sp_n = sp_e = None
        size_n, size_e = case["shape"]
    else:
        if isinstance(sp, list):
            kwargs["spacing"] = build.plain(tuple(sp), ints)
            sp_n, sp_e = sp
        else:
            kwargs["spacing"] = build.plain(sp, ints) if case.get("spacing_form") == "scalar" else [build.plain(sp, ints)]
            sp_n = sp_e = sp
        size_n = size_e = None
    if case["extra"] is not None:
        kwargs["extra_coords"] = build.seq(case["extra"], case.get("extra_seq", "list"))
    first = vd.grid_coordinates(region, **kwargs)
    keep = [np.array(c, copy=True) for c in first]
    for c in first:
        if isinstance(c, np.ndarray) and c.flags.writeable:
            np.multiply(c, -3.5, out=c, casting="unsafe")
    coords = vd.grid_coordinates(region, **kwargs)
    ctx.check(len(coords) == len(keep) and all(np.array_equal(a, b) for a, b in zip(coords, keep)),
              "a second grid_coordinates call with the same arguments returns different coordinates after the first result was modified in place")
    ctx.check(isinstance(coords, tuple), "grid_coordinates must return a tuple")
    n_extra = 0 if case["extra"] is None else (len(case["extra"]) if isinstance(case["extra"], list) else 1)
    ctx.check(len(coords) == 2 + n_extra, "expected %d arrays, got %d", 2 + n_extra, len(coords))
    east_models = line_models(rpy[0], rpy[1], size=size_e, spacing=sp_e, adjust=case["adjust"], pixel=case["pixel"])
    north_models = line_models(rpy[2], rpy[3], size=size_n, spacing=sp_n, adjust=case["adjust"], pixel=case["pixel"])
    easting, northing = np.asarray(coords[0]), np.asarray(coords[1])
    ctx.check(easting.dtype.kind == "f" and northing.dtype.kind == "f", "grid_coordinates returned %s / %s arrays for the region %r: nodes are real numbers (start + k * step)", easting.dtype, northing.dtype, region)
    if case["meshgrid"]:
        ctx.check(easting.ndim == 2 and easting.shape == northing.shape,
                  "meshgrid arrays must be 2-D of equal shape, got %s and %s", easting.shape, northing.shape)
        ctx.check(np.all(easting == easting[0:1, :]), "easting must be constant down each column")
        ctx.check(np.all(northing == northing[:, 0:1]), "northing must be constant along each row")
        east1d, north1d = easting[0, :], northing[:, 0]
        ctx.check(easting.shape == (north1d.size, east1d.size), "shape is not (n_north, n_east)")
    else:
        ctx.check(easting.ndim == 1 and northing.ndim == 1, "meshgrid=False must return 1-D vectors")
        east1d, north1d = easting, northing
    ke, why_e = match_line(east1d, east_models, rpy[0], rpy[1])
    kn, why_n = match_line(north1d, north_models, rpy[2], rpy[3])
    if ke is None:
        raise Violation("easting nodes of grid_coordinates(%r, %r) do not match the model for the east direction: %s"
                        % (region, kwargs, why_e))
    if kn is None:
        raise Violation("northing nodes of grid_coordinates(%r, %r) do not match the model for the north direction: %s"
                        % (region, kwargs, why_n))
    for k in range(n_extra):
        value = case["extra"][k] if isinstance(case["extra"], list) else case["extra"]
        arr = np.asarray(coords[2 + k])
        ctx.check(arr.shape == easting.shape and np.all(arr == value), "extra coordinate %d is not the constant %r", k, value)
    # the same vectors are what meshgrid=False / the 1-D function return
    other = vd.grid_coordinates(region, **{**{k: v for k, v in kwargs.items() if k != "extra_coords"}, "meshgrid": not case["meshgrid"]})
    if case["meshgrid"]:
        ctx.check(np.array_equal(other[0], east1d) and np.array_equal(other[1], north1d),
                  "meshgrid=False vectors differ from the rows/columns of the meshgrid")
    else:
        ctx.check(np.array_equal(other[0], np.meshgrid(east1d, north1d)[0])
                  and np.array_equal(other[1], np.meshgrid(east1d, north1d)[1]), "meshgrid=True differs from meshgrid of the vectors")
    if "shape" in case:
        ctx.check((north1d.size, east1d.size) == tuple(case["shape"]), "requested shape %r, got %r", case["shape"], (north1d.size, east1d.size))
        # shape_to_spacing inverts the shape
        ok_n = case["pixel"] or size_n > 1
        ok_e = case["pixel"] or size_e > 1
        if ok_n and ok_e and rpy[1] > rpy[0] and rpy[3] > rpy[2]:
            spn, spe = vd.coordinates.shape_to_spacing(region, tuple(case["shape"]), pixel_register=case["pixel"])
            div_n = size_n if case["pixel"] else size_n - 1
            div_e = size_e if case["pixel"] else size_e - 1
            ctx.check(abs(exact(spn, "shape_to_spacing result") - (Fraction(rpy[3]) - Fraction(rpy[2])) / div_n)
                      <= Fraction(4 * EPS * abs(float(spn))), "shape_to_spacing north %r wrong", spn)
            ctx.check(abs(exact(spe, "shape_to_spacing result") - (Fraction(rpy[1]) - Fraction(rpy[0])) / div_e)
                      <= Fraction(4 * EPS * abs(float(spe))), "shape_to_spacing east %r wrong", spe)
            back = vd.grid_coordinates(region, spacing=(spn, spe), pixel_register=case["pixel"], meshgrid=False)
            ctx.check((back[1].size, back[0].size) == tuple(case["shape"]),
                      "feeding shape_to_spacing back gives shape %r instead of %r", (back[1].size, back[0].size), case["shape"])
            ctx.label("shape_to_spacing")
        asym = size_n != size_e
    else:
        asym = (north1d.size != east1d.size) or sp_n != sp_e
    ctx.label("meshgrid" if case["meshgrid"] else "vectors", "shape" if "shape" in case else "spacing",
              "pixel" if case["pixel"] else "gridline", "extra%d" % n_extra)
    ctx.nt(asym and min(north1d.size, east1d.size) >= 1 and (north1d.size != east1d.size))


# ---------------------------------------------------------------- profile_coordinates
@st.composite
def profile_cases(draw):
    p1 = [draw(gen.nice_or_free(-1e4, 1e4)), draw(gen.nice_or_free(-1e4, 1e4))]
    kind = draw(st.sampled_from(["free", "horizontal", "vertical", "same", "far", "tiny", "utm_int"]))
    int_dtype = None
    if kind == "utm_int":
        # whole-number end points (metres of a projected coordinate system) stored with a 16- or 32-bit integer dtype; the differences do not fit their squares into it
        int_dtype = draw(st.sampled_from(["int32", "int32", "int16", "int64"]))
        top = 30000 if int_dtype == "int16" else 8000000
        p1 = [float(draw(st.integers(-top, top))), float(draw(st.integers(-top, top)))]
        p2 = [float(max(-top, min(top, p1[0] + draw(st.integers(-200000, 200000))))), float(max(-top, min(top, p1[1] + draw(st.integers(-200000, 200000)))))]
    elif kind == "free":
        p2 = [draw(gen.nice_or_free(-1e4, 1e4)), draw(gen.nice_or_free(-1e4, 1e4))]
    elif kind == "horizontal":
        p2 = [draw(gen.nice_or_free(-1e4, 1e4)), p1[1]]
    elif kind == "vertical":
        p2 = [p1[0], draw(gen.nice_or_free(-1e4, 1e4))]
    elif kind == "same":
        p2 = list(p1)
    elif kind == "tiny":
        p1 = [float(draw(st.integers(-3, 3))), float(draw(st.integers(-3, 3)))]
        p2 = [p1[0] + draw(st.sampled_from([1e-9, -3e-10, 2.5e-11])), p1[1] + draw(st.sampled_from([1e-9, 0.0, -7e-10]))]
    else:
        p2 = [p1[0] + draw(gen.finite(-1e6, 1e6)), p1[1] + draw(gen.finite(-1e6, 1e6))]
    return dict(p1=p1, p2=p2, size=draw(st.integers(1, 120)), kind=kind, int_dtype=int_dtype, extra_seq=draw(st.sampled_from(build.SEQS)), point_seq=draw(st.sampled_from(build.SEQS)),
                extra=draw(st.one_of(st.none(), gen.finite(-100, 100), st.just(0.0), st.lists(st.one_of(gen.finite(-100, 100), st.just(0.0)), min_size=1, max_size=2))))


def check_profile(case, ctx):
    p1, p2, size = case["p1"], case["p2"], case["size"]
    kw = {} if case["extra"] is None else dict(extra_coords=build.seq(case["extra"], case.get("extra_seq", "list")))
    if case.get("int_dtype"):
        a1, a2 = np.array(p1, dtype=case["int_dtype"]), np.array(p2, dtype=case["int_dtype"])
        if case.get("point_seq") == "tuple":
            a1, a2 = tuple(a1), tuple(a2)  # tuples of numpy integer scalars
        coords, dist = vd.profile_coordinates(a1, a2, size, **kw)
    else:
        coords, dist = vd.profile_coordinates(build.seq(p1, case.get("point_seq", "tuple")), build.seq(p2, case.get("point_seq", "tuple")), size, **kw)
    n_extra = 0 if case["extra"] is None else (len(case["extra"]) if isinstance(case["extra"], list) else 1)
    ctx.check(len(coords) == 2 + n_extra, "expected %d coordinate arrays, got %d", 2 + n_extra, len(coords))
    e, n, dist = np.asarray(coords[0]), np.asarray(coords[1]), np.asarray(dist)
    ctx.check(e.shape == (size,) and n.shape == (size,) and dist.shape == (size,), "profile arrays must have 'size' elements")
    dx, dy = Fraction(p2[0]) - Fraction(p1[0]), Fraction(p2[1]) - Fraction(p1[1])
    sep = float(np.hypot(float(dx), float(dy)))
    scale = max(abs(p1[0]), abs(p1[1]), abs(p2[0]), abs(p2[1]), sep, 1e-300)
    tol = Fraction(16 * EPS * scale)
    for k in range(size):
        t = Fraction(k, size - 1) if size > 1 else Fraction(0)
        ctx.check(abs(exact(e[k], "profile easting") - (Fraction(p1[0]) + t * dx)) <= tol, "easting of profile point %d off the segment", k)
        ctx.check(abs(exact(n[k], "profile northing") - (Fraction(p1[1]) + t * dy)) <= tol, "northing of profile point %d off the segment", k)
        ctx.check(abs(float(dist[k]) - float(t) * sep) <= 16 * EPS * max(sep, 1e-300), "distance of profile point %d is not t*separation", k)
    ctx.check(dist[0] == 0, "first distance must be 0")
    for k in range(n_extra):
        value = case["extra"][k] if isinstance(case["extra"], list) else case["extra"]
        ctx.check(np.asarray(coords[2 + k]).shape == (size,) and np.all(np.asarray(coords[2 + k]) == value), "extra coordinate not constant")
    ctx.label(case["kind"], "extra%d" % n_extra)
    ctx.nt(size >= 3 and case["kind"] != "same")


# ---------------------------------------------------------------- rejections
@st.composite
def reject_cases(draw):
    region = draw(gen.regions())
    kind = draw(st.sampled_from(["both", "neither", "adjust", "line_both", "line_neither", "line_adjust",
                                 "extra_no_meshgrid", "spacing3", "profile_size"]))
    return dict(kind=kind, region=region, spacing=draw(gen.spacing_for(region[0], region[1], 30)),
                shape=[draw(st.integers(1, 20)), draw(st.integers(1, 20))],
                adjust=draw(st.sampled_from(["", "Spacing", "both", "shape", "regions"])),
                size=draw(st.integers(-5, 0)))


def check_reject(case, ctx):
    kind, region, sp, shape = case["kind"], case["region"], case["spacing"], tuple(case["shape"])
    calls = {
        "both": lambda: vd.grid_coordinates(region, shape=shape, spacing=sp),
        "neither": lambda: vd.grid_coordinates(region),
        "adjust": lambda: vd.grid_coordinates(region, spacing=sp, adjust=case["adjust"]),
        "line_both": lambda: vd.line_coordinates(region[0], region[1], size=shape[0], spacing=sp),
        "line_neither": lambda: vd.line_coordinates(region[0], region[1]),
        "line_adjust": lambda: vd.line_coordinates(region[0], region[1], spacing=sp, adjust=case["adjust"]),
        "extra_no_meshgrid": lambda: vd.grid_coordinates(region, shape=shape, meshgrid=False, extra_coords=1.0),
        "spacing3": lambda: vd.grid_coordinates(region, spacing=(sp, sp, sp)),
        "profile_size": lambda: vd.profile_coordinates((region[0], region[2]), (region[1], region[3]), case["size"]),
    }
    try:
        result = calls[kind]()
    except Exception:  # noqa: BLE001 - the property demands an error, any error type
        ctx.label(kind)
        ctx.nt(True)
        return
    raise Violation("invalid arguments (%s) were accepted and returned %r" % (kind, result))


# ---------------------------------------------------------------- large grids
@st.composite
def large_cases(draw):
    return dict(region=draw(gen.regions(max_exp=4)), shape=[draw(st.sampled_from([1, 2, 257, 1000, 3001])), draw(st.sampled_from([1, 3, 640, 2000, 4097]))],
                pixel=draw(st.booleans()), meshgrid=draw(st.booleans()), by=draw(st.sampled_from(["shape", "spacing"])))


def check_large(case, ctx):
    """thousands of nodes per direction: still exactly the nodes of the exact model (first, last, evenly spaced, count)"""
    w, e, s, n = case["region"]
    size_n, size_e = case["shape"]
    if case["meshgrid"] and size_n * size_e > 4_000_000:
        size_n = min(size_n, 1000)
    if case["by"] == "shape":
        kw = dict(shape=(size_n, size_e))
    else:
        # the spacing that divides the region into the wanted number of intervals (round-off is absorbed by adjust="spacing")
        kw = dict(spacing=((n - s) / max(size_n - 1, 1), (e - w) / max(size_e - 1, 1)))
        size_n, size_e = max(size_n, 2), max(size_e, 2)
        if case["pixel"]:
            size_n, size_e = size_n - 1, size_e - 1
    east, north = vd.grid_coordinates((w, e, s, n), pixel_register=case["pixel"], meshgrid=case["meshgrid"], **kw)
    if case["meshgrid"]:
        ctx.check(east.shape == (size_n, size_e) and north.shape == (size_n, size_e), "meshgrid shape %s, expected %s", east.shape, (size_n, size_e))
        ctx.check(np.all(east == east[0:1, :]) and np.all(north == north[:, 0:1]), "rows of easting / columns of northing differ")
        east, north = east[0, :], north[:, 0]
    ctx.check(east.shape == (size_e,) and north.shape == (size_n,), "axis lengths (%d, %d), expected (%d, %d)", north.size, east.size, size_n, size_e)
    for name, vals, lo, hi, size in (("easting", east, w, e, size_e), ("northing", north, s, n, size_n)):
        nodes = size + 1 if case["pixel"] else size
        if case["by"] == "shape" and case["pixel"]:
            nodes = size + 1
        step = (hi - lo) / (nodes - 1) if nodes > 1 else 0.0
        exp = lo + step * np.arange(nodes)
        if case["pixel"]:
            exp = exp[:-1] + step / 2
        tol = 8 * EPS * max(abs(lo), abs(hi), 1e-300)
        if vals.shape != exp.shape or not np.all(np.abs(vals - exp) <= tol):
            k = int(np.argmax(np.abs(vals - exp))) if vals.shape == exp.shape else -1
            raise Violation("%s axis of a %d x %d grid (%s, pixel=%r): %d nodes, node %d is %r, the evenly spaced model gives %r" % (
                name, size_n, size_e, case["by"], case["pixel"], vals.size, k, float(vals[k]) if k >= 0 else None, float(exp[k]) if k >= 0 else None))
    ctx.label(case["by"], "pixel" if case["pixel"] else "gridline", "meshgrid" if case["meshgrid"] else "axes")
    ctx.nt(size_n * size_e > 1000)


SUBCHECKS = [
    Sub("line_lattice", check_line, enumerate=lattice, shards_quick=8,
        doc="exhaustive rational lattice of (start, extent, spacing) x adjust x registration for line_coordinates"),
    Sub("line_random", check_line, strategy=line_cases(), quick=1500, thorough=6000,
        doc="generated float intervals with spacing (dividing/non-dividing/ties/larger) or size"),
    Sub("grid_random", check_grid, strategy=grid_cases(), quick=600, thorough=3000,
        doc="grid_coordinates orientation, per-direction spacing/shape order, meshgrid on/off, extra coords, shape_to_spacing inverse"),
    Sub("profile_random", check_profile, strategy=profile_cases(), quick=500, thorough=3000,
        doc="profile_coordinates evenly spaced on the segment, distances from the first point"),
    Sub("rejects", check_reject, strategy=reject_cases(), quick=200, thorough=600, shards_thorough=2,
        doc="both/neither of shape and spacing, invalid adjust, bad extra_coords/spacing/size are rejected"),
    Sub("large", check_large, strategy=large_cases(), quick=10, thorough=60, heavy=True,
        doc="grids with thousands of nodes per direction (shape or dividing spacing, both registrations, meshgrid on/off) against the evenly spaced model"),
]
